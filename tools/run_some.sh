#!/bin/bash
# usage: tools/run_some.sh <tier> <ID>...   - like run_all.sh for a subset of the checks
tier="$1"; shift
cd "$(dirname "$0")/.."
./check build || exit 2
for id in "$@"; do
  s=$(date +%s.%N)
  out=$(./check run $id --tier $tier 2>/dev/null); rc=$?
  e=$(date +%s.%N)
  printf "%s rc=%d %.1fs  %s\n" $id $rc $(echo "$e - $s" | bc) "$(echo "$out" | grep "^$id tier" | cut -c1-200)"
  echo "$out" | grep -E "^VIOLATION|MACHINERY" | head -3
done
