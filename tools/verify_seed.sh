#!/bin/bash
# usage: tools/verify_seed.sh <ID> <i>
# Confirms in the sub-agent's scratch worktree /tmp/wt/<ID> that seeded change <i>
#  (a) applies and compiles, (b) leaves the repository's own suite green, (c) makes its demonstration fail,
#  (d) and that the demonstration passes on the unchanged tree. Prints a summary line; nothing is written to /repo.
id="$1"; i="$2"; wt=/tmp/wt/$id; sd=$wt/SEEDED/$i
cd $wt || exit 2
git checkout -q -- . ; rm -f tests/demo_test.rs tests/seeded_demo_*.rs
[ -f $sd/patch.diff ] || { echo "$id/$i: no patch.diff"; exit 2; }
demo=$(ls $sd/*.rs 2>/dev/null | head -1)
git apply $sd/patch.diff || { echo "$id/$i: patch does not apply"; exit 2; }
export CARGO_NET_OFFLINE=true
suite=$(timeout 900 cargo test --workspace --no-fail-fast --offline 2>&1 | grep -E "^test result" | tr '\n' ' ')
if [ -z "$suite" ] || [ $(echo "$suite" | grep -o "test result" | wc -l) -lt 4 ]; then
  # a seeded deadlock can make the suite hang in rare runs: try once more before calling it broken
  suite=$(timeout 900 cargo test --workspace --no-fail-fast --offline 2>&1 | grep -E "^test result" | tr '\n' ' ')
fi
suite_ok=yes; echo "$suite" | grep -q "FAILED\|[1-9][0-9]* failed" && suite_ok=no
[ -z "$suite" ] && suite_ok=no
if [ -n "$demo" ]; then
  cp $demo tests/seeded_demo_$i.rs
  with=$(cargo test --offline --test seeded_demo_$i 2>&1 | grep -E "^test result|error(\[|:)" | head -3 | tr '\n' ' ')
  git checkout -q -- src
  without=$(cargo test --offline --test seeded_demo_$i 2>&1 | grep -E "^test result|error(\[|:)" | head -3 | tr '\n' ' ')
  rm -f tests/seeded_demo_$i.rs
else
  with="(no demo file)"; without="(no demo file)"; git checkout -q -- src
fi
git checkout -q -- .
echo "$id/$i suite_ok=$suite_ok | suite: $suite"
echo "$id/$i demo WITH change: $with"
echo "$id/$i demo WITHOUT change: $without"
