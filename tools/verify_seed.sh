#!/bin/bash
# usage: tools/verify_seed.sh <seed>        e.g. C04-2, R2-C11-1   (a directory under /verif/seeded)
# Confirms in a scratch git worktree of /repo (created under /tmp, removed afterwards) that the seeded change
#  (a) applies and compiles, (b) leaves the repository's own suite green, (c) makes its demonstration fail,
#  (d) and that the demonstration passes on the unchanged tree. Nothing is written to /repo.
seed="$1"; sd=/verif/seeded/$seed; lane="${LANE:-0}"; wt=/tmp/verif-seed-wt; [ "$lane" != 0 ] && wt=/tmp/verif-seed-wt-$lane
[ -f $sd/patch.diff ] || { echo "$seed: no patch.diff"; exit 2; }
git -C /repo worktree remove --force $wt 2>/dev/null; rm -rf $wt
git -C /repo worktree add -q --detach $wt HEAD || exit 2
cd $wt || exit 2
export CARGO_NET_OFFLINE=true CARGO_TARGET_DIR=/tmp/verif-seed-target$( [ "${LANE:-0}" != 0 ] && echo -${LANE} )
demo=$(ls $sd/*.rs 2>/dev/null | head -1)
git apply $sd/patch.diff 2>/dev/null || patch -p1 -s < $sd/patch.diff || { echo "$seed: patch does not apply"; exit 2; }
suite=$(timeout 900 cargo test --workspace --no-fail-fast --offline 2>&1 | grep -E "^test result" | tr '\n' ' ')
if [ -z "$suite" ] || [ $(echo "$suite" | grep -o "test result" | wc -l) -lt 4 ] || echo "$suite" | grep -q "FAILED"; then
  # a seeded deadlock or a timing-dependent existing test can make one run hang or fail: try once more
  suite2=$(timeout 900 cargo test --workspace --no-fail-fast --offline 2>&1 | grep -E "^test result" | tr '\n' ' ')
  [ -n "$suite2" ] && suite="$suite2"
fi
suite_ok=yes; echo "$suite" | grep -q "FAILED\|[1-9][0-9]* failed" && suite_ok=no
[ -z "$suite" ] && suite_ok=no
if [ -n "$demo" ]; then
  feat=""; grep -q "bench_testable" $sd/notes.md 2>/dev/null && feat="--features bench_testable"
  cp $demo tests/seeded_demo.rs
  with=$(timeout 900 cargo test --offline $feat --test seeded_demo 2>&1 | grep -E "^test result|^error(\[|:)" | tail -3 | tr '\n' ' ')
  git checkout -q -- src
  without=$(timeout 900 cargo test --offline $feat --test seeded_demo 2>&1 | grep -E "^test result|^error(\[|:)" | tail -3 | tr '\n' ' ')
else
  with="(no demo file)"; without="(no demo file)"
fi
cd /; git -C /repo worktree remove --force $wt 2>/dev/null; rm -rf $wt
echo "$seed suite_ok=$suite_ok | suite: $suite"
echo "$seed demo WITH change: $with"
echo "$seed demo WITHOUT change: $without"
