#!/bin/bash
# usage: tools/mutant.sh <name> <patch.diff | -> <ID> [<ID>...]     (IDs: property ids or "all"); env TIER=quick|thorough
# Scratch data lives under /tmp/mt (safe to delete; rebuilt on demand).
# Applies a patch to a scratch copy of /repo (never to /repo itself), builds the harness against the copy
# (CACHED_SRC) in a separate target dir and runs the listed checks. Prints one line per check.
name="$1"; patch="$2"; shift 2
ids="$@"; [ "$ids" = "all" ] && ids="C01 C02 C03 C04 C05 C06 C07 C08 C09 C10 C11 C12 C13 C14 C15 C16 C17 C18"
tier="${TIER:-quick}"
d=/tmp/mt/$name
rm -rf $d; mkdir -p $d/ev
rsync -a --exclude target --exclude .git /repo/ $d/repo/
case "$patch" in
  -) ;;
  sh:*) ( cd $d/repo && bash "${patch#sh:}" ) || { echo "mutation script failed"; exit 2; } ;;
  *) ( cd $d/repo && git apply --unsafe-paths -p1 "$patch" 2>/dev/null || patch -p1 -s < "$patch" ) || { echo "patch failed"; exit 2; } ;;
esac
( cd $d/repo && diff -ru /repo/src src | grep -E "^[+-]" | grep -vE "^(\+\+\+|---)" | head -12 )
lane="${LANE:-0}"; tgt=/tmp/mt/target; [ "$lane" != 0 ] && tgt=/tmp/mt/target-$lane   # parallel lanes build in separate target dirs
export CACHED_SRC=$d/repo/src CARGO_TARGET_DIR=$tgt CARGO_NET_OFFLINE=true
( cd ${MC_SRC:-/verif/mc} && cargo build --release --offline 2>$d/build.log >/dev/null ) || { echo "BUILD FAILED"; grep -E "^error" -A6 $d/build.log | head -30; exit 2; }
cp $tgt/release/mc $d/mc
caught=""
for id in $ids; do
  out=$($d/mc run $id --tier $tier --evidence $d/ev --known /verif/known_findings.jsonl 2>$d/$id.err); rc=$?
  nv=$(echo "$out" | grep -c "^VIOLATION")
  echo "$name $id rc=$rc violations=$nv $(echo "$out" | grep "^$id tier" | sed 's/.*wall=/wall=/')"
  if [ $rc -eq 1 ]; then caught="$caught $id"; grep -E "^  \[" $d/$id.err | cut -c1-260 | head -3; fi
  if [ $rc -ge 2 ]; then tail -3 $d/$id.err; fi
done
echo "== $name caught by:${caught:- NONE}"
