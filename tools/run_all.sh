#!/bin/bash
# Runs every check's quick (or $1) tier, prints one line per property, validates the evidence files.
tier="${1:-quick}"
cd "$(dirname "$0")/.."
ROOT="$(pwd)"
./check build || exit 2
for id in C01 C02 C03 C04 C05 C06 C07 C08 C09 C10 C11 C12 C13 C14 C15 C16 C17 C18; do
  s=$(date +%s.%N)
  out=$(./check run $id --tier $tier 2>/dev/null); rc=$?
  e=$(date +%s.%N)
  printf "%s rc=%d %.1fs  %s\n" $id $rc $(echo "$e - $s" | bc) "$(echo "$out" | grep "^$id tier" | cut -c1-200)"
  echo "$out" | grep -E "^VIOLATION" | head -3
done
python3-vt - "$ROOT" <<'PY'
import json,jsonschema,glob,sys
sch=json.load(open('/root/.vp/EVIDENCE.schema.json'))
for f in sorted(glob.glob(sys.argv[1] + '/evidence/C*.json')):
    jsonschema.validate(json.load(open(f)), sch)
print("evidence files valid:", len(glob.glob(sys.argv[1] + '/evidence/C*.json')))
PY
