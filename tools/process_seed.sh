#!/bin/bash
# usage: tools/process_seed.sh <ID> <i>  - verify a sub-agent's seeded change, run every check against it,
# and file it under /verif/seeded/<ID>-<i>/ with a meta.json that records what was run and who caught it.
id="$1"; i="$2"; out=/verif/seeded/$id-$i; sd=/tmp/wt/$id/SEEDED/$i
mkdir -p $out
# first filing: copy the sub-agent's artefacts; afterwards the filed copy is the source
if [ -d $sd ]; then cp $sd/patch.diff $out/patch.diff; cp $sd/*.rs $out/ 2>/dev/null; cp $sd/notes.md $out/notes.md 2>/dev/null; fi
sd=$out
v=$(/verif/tools/verify_seed.sh $id-$i 2>&1)
echo "$v" | cut -c1-200
r=$(/verif/tools/mutant.sh $id-$i $sd/patch.diff all 2>&1)
echo "$r" | grep -E "rc=1|rc=2|caught|^  \[" | cut -c1-260
python3 - "$id" "$i" "$out" <<PY
import sys, json, re
id_, i, out = sys.argv[1:4]
v = """$v"""
r = """$(echo "$r" | grep -E "rc=|caught" )"""
suite_ok = "suite_ok=yes" in v
demo_with = re.search(r"demo WITH change: (.*)", v); demo_without = re.search(r"demo WITHOUT change: (.*)", v)
caught = re.search(r"caught by:(.*)", r)
caught_by = caught.group(1).split() if caught and "NONE" not in caught.group(1) else []
per = {}
for m in re.finditer(r"(C\d\d) rc=(\d) violations=(\d+)", r):
    per[m.group(1)] = {"rc": int(m.group(2)), "violations": int(m.group(3))}
notes = open(out + "/notes.md").read() if __import__("os").path.exists(out + "/notes.md") else ""
meta = {
  "seed": f"{id_}-{i}",
  "property_targeted": id_.split("-")[-1],
  "origin": "independent sub-agent given only the property text and a scratch worktree" + (" (second round: asked for subtler changes)" if id_.startswith("R2-") else " (third round: subtle, two different mechanisms, one multi-threaded, one delayed)" if id_.startswith("R3-") else " (fourth round: three changes in different files, away from the obvious places)" if id_.startswith("R4-") else " (fifth round: mutation-style single-token / single-line edits that survive the suite)" if id_.startswith("R5-") else " (sixth round: plausible 5-25 line optimisation / robustness pull requests with a subtle flaw)" if id_.startswith("R6-") else " (seventh round: concurrency defects only, needing several context switches in a specific order)" if id_.startswith("R7-") else " (eighth round: triggered only by an unusual but valid configuration or input corner)" if id_.startswith("R8-") else " (ninth round: latent defects that show only four or more operations after the faulty step)" if id_.startswith("R9-") else " (tenth round: co-location defects that need two different keys sharing something internal)" if id_.startswith("RA-") else ""),
  "change": json.load(open("/verif/seeded/summaries.json")).get(f"{id_}-{i}", {}).get("change"),
  "needs_to_manifest": json.load(open("/verif/seeded/summaries.json")).get(f"{id_}-{i}", {}).get("needs"),
  "confirmed": {
     "existing_suite_passes_with_change": suite_ok,
     "demo_with_change": demo_with.group(1).strip() if demo_with else None,
     "demo_without_change": demo_without.group(1).strip() if demo_without else None,
     "commands": ["tools/verify_seed.sh %s-%s  (scratch worktree; git apply; cargo test --workspace --no-fail-fast --offline; cargo test --test seeded_demo; revert)" % (id_, i),
                  "tools/mutant.sh %s-%s patch.diff all  (scratch copy of /repo + patch, harness built with CACHED_SRC, every check's quick tier)" % (id_, i)],
  },
  "caught_by_quick_checks": caught_by,
  "per_check": per,
}
json.dump(meta, open(out + "/meta.json", "w"), indent=1)
print("filed", out, "caught_by", caught_by)
PY
