#!/usr/bin/env python3
"""Regenerates /verif/MANIFEST.json from the table below (kept in one place so it stays valid)."""
import json, subprocess, os
HOOK_COMMITS = subprocess.run(["git","-C","/repo","log","--format=%H %s"],capture_output=True,text=True).stdout.strip().split("\n")
hook_commits = [l.split()[0] for l in HOOK_COMMITS if " verif hooks:" in l]
BASE = "stateless model checking of the real code (shuttle execution engine + own preemption-bounded exhaustive DFS scheduler)"
SEQ = "explicit-state model checking of the real code: breadth-first search over operation sequences with canonical-state deduplication (fresh cache per transition, quiescence after every step)"
EXH = "exhaustive input enumeration of the real component against a reference model"
ILV_NOTE = "shim fidelity (parking_lot / dashmap 5.4 / crossbeam-channel look-alikes on shuttle's engine), sequentially consistent executions, 1-3 client threads with 1-4 operations each on 2-3 colliding keys, preemption bound as completed in the evidence"
SEQ_NOTE = "alphabet and depth as listed in the evidence; canonical state keeps everything future behaviour depends on (DESIGN 3.4); default schedule with quiescence after every step"
CHECKS = {
 "C01": ("seq+ilv", SEQ + " + " + BASE + " with an every-scheduling-point monitor",
         "Invariant 0 <= total <= W on every quiescent state reachable with <= d operations (W in {2,3,4}, every write variant, weight-changing upserts, deletes, clock steps, sweeps), and on every scheduling point of 2-3 client programs racing the worker and the sweeper (monitor peeks weight_used whenever it is not write-locked). Blame is inductive: the step that takes the total out of range.",
         ILV_NOTE + "; " + SEQ_NOTE, "DESIGN.md §5/C01"),
 "C02": ("ilv+seq", BASE + " with a per-read history oracle over effect intervals; " + SEQ + " for read-variant agreement",
         "Every schedule (up to the bound) of readers racing upserts, delete+re-put, evicting puts and expiry on overlapping keys, through each read variant, identity and constant key hashes; every read that returns a value is checked against the effect intervals of the writes (register-with-delete). In every quiescent state of a BFS all seven read variants agree with the stored entry.",
         ILV_NOTE, "DESIGN.md §5/C02"),
 "C03": ("seq+ilv", SEQ + " + " + BASE,
         "Ghost state (latest accepted value and deadline per key) versus the state snapshot after every transition of a BFS with traffic on other keys, sketch ageing and sweeps; and per-key-sequential client threads racing other clients, readers and the clock/sweeper under every schedule up to the bound.",
         ILV_NOTE + "; " + SEQ_NOTE + "; total demanded weight always fits", "DESIGN.md §5/C03"),
 "C04": ("ilv+seq", BASE + " with a history oracle on step stamps; " + SEQ,
         "Deleter, readers, worker and sweeper under every schedule up to the bound: no read invoked after delete(k) returned sees the deleted value, the acknowledged delete leaves no entry/charge, the key can be put again; BFS over delete in every life-cycle state (absent keys: rejected, state unchanged).",
         ILV_NOTE + "; " + SEQ_NOTE, "DESIGN.md §5/C04"),
 "C05": ("seq+ilv", SEQ + " (invariant Q in every quiescent state); " + BASE + "; invariant Q on state snapshots at quiescence",
         "Invariant Q (charged key ids and stored entries in bijection, weight_used = their sum) in every quiescent state reachable over a 12-letter write / clock / sweep alphabet (depth 7 / 9, 2 and 4 expiry shards), and at the quiescent end of every schedule (up to the completed preemption bound) of 15 client programs racing writes to one key against the real worker and sweeper. Exhaustive within the bounds, not sampled.",
         ILV_NOTE, "DESIGN.md §5/C05"),
 "C06": ("exh+seq+ilv", EXH + " (admission decision table on the real AdmissionPolicy, oracle per eviction round from events, estimates read back); " + SEQ + " through the read pipeline; " + BASE + " for the eviction loop racing the sweeper",
         "All enumerated (resident sequence, weights, access profile, incoming key) cases for W in 3..8: fast path, too-heavy rejection, and for every eviction round: sample size/distinctness/membership, victim is a coldest sample member, never hotter than the incoming key when evicted, eviction stops when space suffices, accepted iff enough space, totals. Plus every schedule (up to the bound) of four programs in which the sweeper releases weight while the worker evicts: accepted => charged total within W; sweep finished before the first victim and enough space at the end => not rejected for lack of space.",
         "estimates are inputs (read back), ties may go either way; table bounds as listed in the evidence", "DESIGN.md §5/C06"),
 "C07": ("seq+ilv", SEQ + " + " + BASE + " (several puts of one key in flight)",
         "Key 1 is driven into every life-cycle state the sequential API reaches (never written, live, live+TTL, deleted, evicted, swept, expired-unswept); each of the four put variants is applied in each state and compared with the state snapshot before/after, readability being taken from a real read issued right before the put (which also settles the exact expiry instant); the same BFS binds the readability model to all seven read variants; under the scheduler, of several in-flight puts of one key (all variants) at most one is accepted and its entry is not overwritten.",
         SEQ_NOTE + "; " + ILV_NOTE, "DESIGN.md §5/C07"),
 "C08": ("seq+ilv", SEQ + " with a before/after entry oracle and a differential twin-cache oracle; " + BASE + " with the worker frozen",
         "The 11 request shapes x key states {absent, live, live+TTL, expired-unswept} x one preceding operation; readable keys: exactly the requested fields change; absent keys: behaves like the corresponding put (specification and twin cache); visibility at return and the soft-deleted state under the scheduler.",
         SEQ_NOTE + "; " + ILV_NOTE, "DESIGN.md §5/C08"),
 "C09": ("seq+ilv", SEQ + " (incl. histories that start after a first TTL change); " + BASE + " for TTL changes and reads racing the sweeper",
         "Expected read derived from the specification-level ghost (latest accepted value/deadline) for every read variant in every state of a BFS over TTL puts, TTL upserts (add/change/remove), deletes, clock steps including a huge jump, sweeps present or withheld, 2 and 4 shards.",
         SEQ_NOTE + "; monotone clock; the instant now == expiry is unspecified", "DESIGN.md §5/C09"),
 "C10": ("seq+ilv", SEQ + " with an exact removed-set oracle on every tick transition; " + BASE,
         "On every sweep transition of a BFS the removed set must equal the held keys whose current expiry lies in the swept shard and has passed, their weight and bookkeeping released, everything else untouched; sweeps racing worker commands, TTL upserts, delete+re-put and evictions under every schedule up to the bound.",
         SEQ_NOTE + "; " + ILV_NOTE + "; sweeps are manual ticks at chosen instants", "DESIGN.md §5/C10"),
 "C11": ("ilv", BASE + " with an every-scheduling-point monitor for acknowledgement order and an event-log oracle",
         "Bursts of 2-4 unawaited writes from 1-3 threads, queue sizes 1 and 2: each queued command dequeued exactly once, one at a time, in real-time submission order; acknowledgements complete in order at every scheduling point; statuses and final state equal the sequential application in dequeue order.",
         ILV_NOTE, "DESIGN.md §5/C11"),
 "C12": ("ilv", BASE + "; unbounded DFS for the acknowledgement micro-harness; the same micro-harness under loom",
         "All interleavings (no bound) of done(status) with 1-2 polling tasks x 1-3 polls at the granularity of the flag / status mutex / waker mutex accesses of the real CommandAcknowledgement, plus bounded exploration of whole-cache programs that await their own writes (a lost wake-up is a deadlock there).",
         "sequentially consistent atomics (argued sufficient in DESIGN §5/C12), shim Mutex = parking_lot::Mutex semantics", "DESIGN.md §5/C12"),
 "C13": ("ilv", BASE + "; lifecycle flags are scheduling points",
         "shutdown() racing writers, readers and other shutdown calls with a command queue of size 1-2: calls invoked after a shutdown returned are refused, every acknowledgement completes with its real outcome or ShuttingDown consistently with the worker's dequeue log, shutdown itself returns (otherwise deadlock).",
         ILV_NOTE, "DESIGN.md §5/C13"),
 "C14": ("exh+seq", EXH + " (packed 4-bit rows, FrequencyCounter, TinyLFU against exact counters, clear() included); " + SEQ + " through builder, access buffers and the consumer thread",
         "All 256 byte values x neighbours x positions for the packed rows; every access stream over 3 hashes up to length 6-8 for each listed counter count (1..17, non-powers of two) and enumerated seed low bits against an exact count-min reference; TinyLFU across ageing windows against a reference fed with the door-keeper's answers.",
         "three hash values, listed counter counts, stream lengths as in the evidence", "DESIGN.md §5/C14"),
 "C15": ("ilv+seq", BASE + " (consumer optionally frozen, buffer index as data choice) with a conservation oracle; " + SEQ,
         "2 readers x 2-4 reads, pool size 1-2, buffer size 1-2, access channel shrunk to 1-2, consumer running, slow or never scheduled: hits = buffered + delivered + dropped at the end of every execution, delivered = applied, no reader ever waits for the consumer; BFS over read sequences.",
         ILV_NOTE + "; the channel capacity constant (10) is shrunk by the shim so that saturation is reachable", "DESIGN.md §5/C15"),
 "C16": ("seq+ilv", SEQ + "; counter identities in delta form on every transition; " + BASE + " with the statistics counters as scheduling points",
         "Per transition: hits+misses = lookups, hits = successful lookups, keys added-deleted = change of held keys, weight added-removed = change of total weight, rejected = admission refusals; per state the hit-ratio formula; with and without memory pressure, all-hit and all-miss workloads; the same identities at quiescence after concurrent clients (lost counter updates are a schedule away).",
         SEQ_NOTE + "; " + ILV_NOTE, "DESIGN.md §5/C16"),
 "C17": ("seq+ilv", SEQ + " over a boundary-value alphabet; caller panics caught per call, background panics / dead workers fail the execution; " + BASE + " for valid calls racing sweeper, worker and shutdown",
         "Weights {1,24,25,W,W+1,i64::MAX} x TTL {0,1ns,1s,u64::MAX s,Duration::MAX} x counters 1..3 x W in {1,30,i64::MAX} with queue/pool/buffer size 1, all put variants and upsert shapes, depth 2-3 (+3 in the thorough tier); overflow checks on; five concurrent programs in which an expired key leaves the expiry index (delete, TTL change, shutdown) while the sweeper works.",
         SEQ_NOTE + "; exhaustive over the listed boundary values, not over i64/Duration; " + ILV_NOTE, "DESIGN.md §5/C17"),
 "C18": ("ilv", BASE + " with built-in deadlock detection, two rwlock fairness models, liveness probes",
         "Six maximal-lock-sharing programs (one shard, queue 1, pool 1, buffer 1; upserts with TTL change, evictions, sweeps, hand-overs, shutdown, iterators) under the reader-preferring and parking_lot's writer-preferring rwlock rule; a deadlock is a state with an unfinished task and none enabled; afterwards worker, sweeper and consumer must answer a probe. Every other property's scenarios detect deadlocks too.",
         ILV_NOTE + "; callers never hold a get_ref guard across another call", "DESIGN.md §5/C18"),
}
NOT_YET = {
}
props = [json.loads(l) for l in open("/verif/properties.jsonl")]
checks, na = [], []
for p in props:
    i = p["id"]
    if i in CHECKS:
        eng, tech, text, note, ref = CHECKS[i]
        checks.append({
            "property_id": i,
            "quick_cmd": f"./check run {i} --tier quick",
            "thorough_cmd": f"./check run {i} --tier thorough",
            "evidence_file": f"/verif/evidence/{i}.json",
            "replay_cmd_template": "./check replay {path}",
            "engine": eng,
            "level_claimed": {"category": "model_checking", "text": text, "design_ref": ref},
            "level_note": note,
            "technique": tech,
        })
    else:
        na.append({"property_id": i, "reason": NOT_YET.get(i, "check not built yet in this round (work in progress, see DESIGN.md §8); model checking applies and is planned")})
m = {
 "version": 1,
 "setup_cmd": "./check build",
 "hooks": {
   "guard": "cached_verif",
   "enable": "RUSTFLAGS='--cfg cached_verif' (set in /verif/mc/.cargo/config.toml); only via the /verif/mc harness crate, which mounts /repo/src with #[path] and provides crate::verif_rt",
   "baseline_off_cmd": "cd /repo && cargo test --workspace --no-fail-fast --offline",
   "source_commits": hook_commits,
   "add_only": True,
 },
 "engines": [
   {"name": "ilv", "path": "/verif/mc/src/harness/ilv.rs", "serves_properties": sorted(k for k,v in CHECKS.items() if "ilv" in v[0]), "kind_free_text": "stateless preemption-bounded exhaustive DFS over thread interleavings of the real code (shuttle runtime, own Scheduler with decision stack, replay, prefix-partitioned parallel search)"},
   {"name": "seq", "path": "/verif/mc/src/harness/seq.rs", "serves_properties": sorted(k for k,v in CHECKS.items() if "seq" in v[0]), "kind_free_text": "explicit-state breadth-first search over operation sequences on the real code with canonical-state deduplication"},
   {"name": "native-conformance", "path": "/verif/mc/src/verif_rt/native/mod.rs", "serves_properties": sorted(k for k,v in CHECKS.items() if "seq" in v[0]), "kind_free_text": "replays every sequential history (up to depth 3-4) explored by the sched build on the real parking_lot/dashmap/crossbeam-channel build and requires identical API results and canonical states"},
   {"name": "loom-ack", "path": "/verif/mc/src/harness/loom_c12.rs", "serves_properties": ["C12"], "kind_free_text": "the acknowledgement micro-harness under loom 0.7 (all interleavings, C11 memory model with stale loads) in a third build (feature loomck)"},
   {"name": "exh", "path": "/verif/mc/src/harness/exh.rs", "serves_properties": sorted(k for k,v in CHECKS.items() if "exh" in v[0]), "kind_free_text": "exhaustive enumeration of inputs of pure components against reference models"},
 ],
 "checks": checks,
 "not_applicable": na,
 "notes": "All checks run /verif/check, which rebuilds /verif/mc (two flavours: sched = controlled scheduler, native = real crates for the conformance replay) from /repo's working tree, runs the explorer self-test, the property's scenarios and the native conformance replay of the sequential traces. Exit 2 = machinery failure, never a verdict. known_findings.jsonl lists genuine defects (fixed, or recorded with a narrow signature). seeded/ holds 36 independently written property-breaking changes with what reports them.",
}
json.dump(m, open("/verif/MANIFEST.json","w"), indent=1)
print("checks:", [c["property_id"] for c in checks], "n/a:", len(na))
