#!/usr/bin/env python3
"""Regenerates /verif/MANIFEST.json from the table below (kept in one place so it stays valid)."""
import json, subprocess, os
HOOK_COMMITS = subprocess.run(["git","-C","/repo","log","--format=%H %s"],capture_output=True,text=True).stdout.strip().split("\n")
hook_commits = [l.split()[0] for l in HOOK_COMMITS if " verif hooks:" in l]
BASE = "stateless model checking of the real code (shuttle execution engine + own preemption-bounded exhaustive DFS scheduler)"
CHECKS = {
 # id: (engine, technique, level text, note, design_ref)
 "C05": ("ilv", BASE + "; invariant Q on state snapshots at quiescence",
         "Every schedule (up to the completed preemption bound) of 10 client programs racing writes to one key against the real worker and sweeper; at the quiescent end of each execution the charged key ids and the stored entries must be in bijection and weight_used must be their sum. Exhaustive within the bound, not sampled.",
         "shim fidelity (parking_lot/dashmap/crossbeam look-alikes), sequential consistency, 2 client threads, <=3 keys, preemption bound as reported in the evidence", "DESIGN.md §5/C05"),
 "C12": ("ilv", BASE + "; unbounded DFS for the acknowledgement micro-harness",
         "All interleavings (no bound) of done(status) with 1-2 polling tasks x 1-3 polls at the granularity of the flag / status mutex / waker mutex accesses of the real CommandAcknowledgement, plus bounded exploration of whole-cache programs that await their own writes (a lost wake-up is a deadlock there).",
         "sequentially consistent atomics (argued sufficient in DESIGN §5/C12), shim Mutex = parking_lot::Mutex semantics", "DESIGN.md §5/C12"),
}
NOT_YET = {
}
props = [json.loads(l) for l in open("/verif/properties.jsonl")]
checks, na = [], []
for p in props:
    i = p["id"]
    if i in CHECKS:
        eng, tech, text, note, ref = CHECKS[i]
        checks.append({
            "property_id": i,
            "quick_cmd": f"./check run {i} --tier quick",
            "thorough_cmd": f"./check run {i} --tier thorough",
            "evidence_file": f"/verif/evidence/{i}.json",
            "replay_cmd_template": "./check replay {path}",
            "engine": eng,
            "level_claimed": {"category": "model_checking", "text": text, "design_ref": ref},
            "level_note": note,
            "technique": tech,
        })
    else:
        na.append({"property_id": i, "reason": NOT_YET.get(i, "check not built yet in this round (work in progress, see DESIGN.md §8); model checking applies and is planned")})
m = {
 "version": 1,
 "setup_cmd": "./check build",
 "hooks": {
   "guard": "cached_verif",
   "enable": "RUSTFLAGS='--cfg cached_verif' (set in /verif/mc/.cargo/config.toml); only via the /verif/mc harness crate, which mounts /repo/src with #[path] and provides crate::verif_rt",
   "baseline_off_cmd": "cd /repo && cargo test --workspace --no-fail-fast --offline",
   "source_commits": hook_commits,
   "add_only": True,
 },
 "engines": [
   {"name": "ilv", "path": "/verif/mc/src/harness/ilv.rs", "serves_properties": sorted(k for k,v in CHECKS.items() if "ilv" in v[0]), "kind_free_text": "stateless preemption-bounded exhaustive DFS over thread interleavings of the real code (shuttle runtime, own Scheduler with decision stack, replay, prefix-partitioned parallel search)"},
   {"name": "seq", "path": "/verif/mc/src/harness/seq.rs", "serves_properties": sorted(k for k,v in CHECKS.items() if "seq" in v[0]), "kind_free_text": "explicit-state breadth-first search over operation sequences on the real code with canonical-state deduplication"},
   {"name": "exh", "path": "/verif/mc/src/harness/exh.rs", "serves_properties": sorted(k for k,v in CHECKS.items() if "exh" in v[0]), "kind_free_text": "exhaustive enumeration of inputs of pure components against reference models"},
 ],
 "checks": checks,
 "not_applicable": na,
 "notes": "All checks run /verif/check, which rebuilds /verif/mc from /repo's working tree. Exit 2 = machinery failure, never a verdict. known_findings.jsonl lists genuine defects (fixed or recorded).",
}
json.dump(m, open("/verif/MANIFEST.json","w"), indent=1)
print("checks:", [c["property_id"] for c in checks], "n/a:", len(na))
