// Generates the `#[path]` mount of the repository's source tree. The default is /repo/src (the
// current working tree, as the checks require); CACHED_SRC overrides it so that seeded changes can
// be tried in a scratch worktree without touching /repo.
use std::{env, fs, path::Path};
fn main() {
    println!("cargo:rerun-if-env-changed=CACHED_SRC");
    let src = env::var("CACHED_SRC").unwrap_or_else(|_| "/repo/src".to_string());
    let out = env::var("OUT_DIR").unwrap();
    let mount = format!("#[path = \"{}/cache/mod.rs\"]\npub mod cache;\n", src);
    fs::write(Path::new(&out).join("mount.rs"), mount).unwrap();
    println!("cargo:rustc-env=CACHED_SRC_RESOLVED={}", src);
}
