//! The few engine calls every shim is built from. All tasks of one execution are coroutines on
//! one OS thread, so plain `Cell`/`RefCell` state inside the shims is never raced on; a task only
//! loses the processor inside `switch()`.
use shuttle_engine::runtime::execution::ExecutionState;
use shuttle_engine::runtime::task::TaskId;

/// A scheduling point: the scheduler may run any enabled task before the caller continues.
#[inline]
pub fn switch() {
    if !std::thread::panicking() && alive() {
        shuttle_engine::runtime::thread::switch();
    }
}

/// Inside a live shuttle execution? (Releases during a caught panic must still wake waiters.)
#[inline]
pub fn alive() -> bool {
    ExecutionState::try_with(|_| ()).is_ok()
}

pub fn me() -> usize {
    usize::from(ExecutionState::me())
}

pub fn me_opt() -> Option<usize> {
    ExecutionState::try_with(|s| s.try_current().map(|t| usize::from(t.id()))).ok().flatten()
}

/// Mark the running task blocked; it stops being enabled at the next `switch()`.
pub fn block_current() {
    ExecutionState::with(|s| s.current_mut().block(false));
}

pub fn unblock(task: usize) {
    let _ = ExecutionState::try_with(|s| {
        if let Some(t) = s.try_get(TaskId::from(task)) {
            if !t.finished() {
                s.get_mut(TaskId::from(task)).unblock();
            }
        }
    });
}

/// Put a task that was woken but can no longer proceed back to sleep (it has not run since).
pub fn reblock(task: usize) {
    let _ = ExecutionState::try_with(|s| {
        if let Some(t) = s.try_get(TaskId::from(task)) {
            if !t.finished() {
                s.get_mut(TaskId::from(task)).block(false);
            }
        }
    });
}

/// Is the task enabled (neither blocked nor finished)?
pub fn runnable(task: usize) -> bool {
    ExecutionState::try_with(|s| s.try_get(TaskId::from(task)).map(|t| t.runnable() && !t.finished()).unwrap_or(false)).unwrap_or(false)
}

/// Let the given tasks run until each of them is blocked or finished (used outside the branching
/// window, e.g. right after the cache constructor spawned its background threads).
pub fn settle(tasks: &[usize]) {
    let mut guard = 0;
    while tasks.iter().any(|t| runnable(*t)) {
        shuttle::thread::yield_now();
        guard += 1;
        assert!(guard < 10_000, "background tasks never settle");
    }
}
