//! `sched` backend: shims on shuttle's execution engine + our own bounded-DFS scheduler.
pub mod explore;
pub mod rt;
pub mod sync;
pub mod world;
