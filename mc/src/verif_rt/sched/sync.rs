//! Look-alikes of the synchronisation crates used by /repo, built on shuttle's execution engine.
//!
//! Rules (the trusted base of the `ilv` engine, bound to the real crates by the conformance replay):
//! * exactly one scheduling point *before* every visible operation (lock acquisition, atomic access,
//!   channel send/recv, the drop that disconnects a channel, spawn, join); none at lock releases - a release followed by the thread's next
//!   scheduling point exposes the same interleavings;
//! * a blocked operation parks the task; every state change re-evaluates which waiters are eligible
//!   (eligible waiters race, i.e. barging is allowed, like parking_lot, dashmap's lock and crossbeam);
//! * `parking_lot::RwLock`: a reader is admitted when no writer holds the lock and - in `fair` mode,
//!   parking_lot's documented policy - no writer is queued ahead of it; `dashmap`'s shard lock admits
//!   a reader whenever no writer *holds* it (dashmap-5.4.0/src/lock.rs);
//! * sequential consistency for atomics (see DESIGN §5/C12 for why that suffices here).
#![allow(dead_code)]

use super::{rt, world};
use std::cell::{Cell, RefCell, UnsafeCell};
use std::hash::{Hash, Hasher};
use std::ops::{Deref, DerefMut};

// ------------------------------------------------------------------------------------------------
// atomics
// ------------------------------------------------------------------------------------------------
pub mod atomic {
    use super::*;
    pub use std::sync::atomic::Ordering;

    fn lifecycle_now() -> bool {
        world::try_with(|w| w.constructing).unwrap_or(false)
    }

    #[derive(Clone, Copy, PartialEq, Eq)]
    enum Class {
        Plain,
        Id,
        Stats,
    }

    macro_rules! atomic_int {
        ($name:ident, $t:ty) => {
            atomic_int!($name, $t, Class::Plain);
        };
        ($name:ident, $t:ty, $class:expr) => {
            pub struct $name {
                v: Cell<$t>,
                lifecycle: bool,
            }
            unsafe impl Sync for $name {}
            unsafe impl Send for $name {}
            impl $name {
                pub fn new(v: $t) -> Self {
                    $name { v: Cell::new(v), lifecycle: lifecycle_now() }
                }
                #[inline]
                fn point(&self) {
                    let cfg = world::cfg();
                    let is_point = match $class {
                        Class::Plain => !(self.lifecycle && !cfg.lifecycle_atomics_are_points),
                        Class::Id => cfg.id_atomics_are_points,
                        Class::Stats => cfg.stats_atomics_are_points,
                    };
                    if is_point {
                        rt::switch();
                    }
                }
                pub fn load(&self, _o: Ordering) -> $t {
                    self.point();
                    self.v.get()
                }
                pub fn store(&self, v: $t, _o: Ordering) {
                    self.point();
                    self.v.set(v)
                }
                pub fn swap(&self, v: $t, _o: Ordering) -> $t {
                    self.point();
                    self.v.replace(v)
                }
                pub fn compare_exchange(&self, cur: $t, new: $t, _s: Ordering, _f: Ordering) -> Result<$t, $t> {
                    self.point();
                    let old = self.v.get();
                    if old == cur {
                        self.v.set(new);
                        Ok(old)
                    } else {
                        Err(old)
                    }
                }
                pub fn compare_exchange_weak(&self, cur: $t, new: $t, s: Ordering, f: Ordering) -> Result<$t, $t> {
                    self.compare_exchange(cur, new, s, f)
                }
                pub fn fetch_update<F: FnMut($t) -> Option<$t>>(&self, _s: Ordering, _f: Ordering, mut f: F) -> Result<$t, $t> {
                    self.point();
                    let old = self.v.get();
                    match f(old) {
                        Some(n) => {
                            self.v.set(n);
                            Ok(old)
                        }
                        None => Err(old),
                    }
                }
                pub fn get_mut(&mut self) -> &mut $t {
                    self.v.get_mut()
                }
                pub fn into_inner(self) -> $t {
                    self.v.into_inner()
                }
                /// Not a scheduling point (monitors, accessors).
                pub fn verif_peek(&self) -> $t {
                    self.v.get()
                }
            }
            impl Default for $name {
                fn default() -> Self {
                    Self::new(Default::default())
                }
            }
            impl std::fmt::Debug for $name {
                fn fmt(&self, f: &mut std::fmt::Formatter<'_>) -> std::fmt::Result {
                    write!(f, "{:?}", self.v.get())
                }
            }
        };
    }
    macro_rules! atomic_arith {
        ($name:ident, $t:ty) => {
            impl $name {
                pub fn fetch_add(&self, d: $t, _o: Ordering) -> $t {
                    self.point();
                    let old = self.v.get();
                    self.v.set(old.wrapping_add(d));
                    old
                }
                pub fn fetch_sub(&self, d: $t, _o: Ordering) -> $t {
                    self.point();
                    let old = self.v.get();
                    self.v.set(old.wrapping_sub(d));
                    old
                }
                pub fn fetch_max(&self, d: $t, _o: Ordering) -> $t {
                    self.point();
                    let old = self.v.get();
                    self.v.set(old.max(d));
                    old
                }
                pub fn fetch_min(&self, d: $t, _o: Ordering) -> $t {
                    self.point();
                    let old = self.v.get();
                    self.v.set(old.min(d));
                    old
                }
            }
        };
    }
    atomic_int!(AtomicBool, bool);
    atomic_int!(AtomicU64, u64);
    atomic_int!(AtomicI64, i64);
    atomic_int!(AtomicUsize, usize);
    atomic_int!(AtomicU32, u32);
    atomic_int!(AtomicU8, u8);
    atomic_arith!(AtomicU64, u64);
    atomic_arith!(AtomicI64, i64);
    atomic_arith!(AtomicUsize, usize);
    atomic_arith!(AtomicU32, u32);
    atomic_arith!(AtomicU8, u8);
    // the id generator and the statistics counters import their atomics under distinct names (see the seam)
    atomic_int!(IdAtomicU64, u64, Class::Id);
    atomic_arith!(IdAtomicU64, u64);
    atomic_int!(StatsAtomicU64, u64, Class::Stats);
    atomic_arith!(StatsAtomicU64, u64);
    impl AtomicBool {
        pub fn fetch_or(&self, v: bool, _o: Ordering) -> bool {
            self.point();
            let old = self.v.get();
            self.v.set(old | v);
            old
        }
        pub fn fetch_and(&self, v: bool, _o: Ordering) -> bool {
            self.point();
            let old = self.v.get();
            self.v.set(old & v);
            old
        }
        pub fn fetch_xor(&self, v: bool, _o: Ordering) -> bool {
            self.point();
            let old = self.v.get();
            self.v.set(old ^ v);
            old
        }
        pub fn fetch_nand(&self, v: bool, _o: Ordering) -> bool {
            self.point();
            let old = self.v.get();
            self.v.set(!(old & v));
            old
        }
    }
    pub fn fence(_o: Ordering) {}
}

pub fn peek_atomic_bool(a: &atomic::AtomicBool) -> bool {
    a.verif_peek()
}

// ------------------------------------------------------------------------------------------------
// the one blocking primitive: a reader/writer lock with a waiter queue
// ------------------------------------------------------------------------------------------------
#[derive(Clone, Copy, PartialEq, Eq, Debug)]
pub(crate) enum Policy {
    Mutex,
    /// parking_lot::RwLock: fair or not depending on WorldCfg.fair_rwlocks
    RwParkingLot,
    /// dashmap 5.4 shard lock: reader-preferring spin lock
    RwDash,
}

#[derive(Default)]
struct LockState {
    writer: Option<usize>,
    readers: Vec<usize>,
    waiters: Vec<(usize, bool)>,
}

pub(crate) struct RawLock {
    st: RefCell<LockState>,
    policy: Policy,
}

impl RawLock {
    pub(crate) fn new(policy: Policy) -> Self {
        RawLock { st: RefCell::new(LockState::default()), policy }
    }

    fn fair(&self) -> bool {
        self.policy == Policy::RwParkingLot && world::cfg().fair_rwlocks
    }

    fn eligible(st: &LockState, fair: bool, task: usize, write: bool, recursive: bool) -> bool {
        if st.writer.is_some() {
            return false;
        }
        if write {
            return st.readers.is_empty();
        }
        if fair && !recursive {
            // a reader queues behind every writer that is waiting ahead of it
            for (t, w) in st.waiters.iter() {
                if *t == task {
                    break;
                }
                if *w {
                    return false;
                }
            }
        }
        true
    }

    fn rewake(&self) {
        let fair = self.fair();
        let st = self.st.borrow();
        for (t, w) in st.waiters.iter() {
            if Self::eligible(&st, fair, *t, *w, false) {
                rt::unblock(*t);
            } else {
                rt::reblock(*t);
            }
        }
    }

    fn take(st: &mut LockState, me: usize, write: bool) {
        st.waiters.retain(|(t, _)| *t != me);
        if write {
            st.writer = Some(me);
        } else {
            st.readers.push(me);
        }
    }

    pub(crate) fn acquire(&self, write: bool, recursive: bool) {
        rt::switch();
        if !rt::alive() {
            // tear-down of a failed execution: no scheduler left, just track the state
            let mut st = self.st.borrow_mut();
            Self::take(&mut st, usize::MAX, write);
            return;
        }
        let me = rt::me();
        let fair = self.fair();
        loop {
            {
                let mut st = self.st.borrow_mut();
                if Self::eligible(&st, fair, me, write, recursive) {
                    Self::take(&mut st, me, write);
                    drop(st);
                    self.rewake();
                    return;
                }
                if !st.waiters.iter().any(|(t, _)| *t == me) {
                    st.waiters.push((me, write));
                }
            }
            rt::block_current();
            rt::switch();
        }
    }

    pub(crate) fn try_acquire(&self, write: bool) -> bool {
        rt::switch();
        let me = rt::me_opt().unwrap_or(usize::MAX);
        let fair = self.fair();
        let mut st = self.st.borrow_mut();
        if Self::eligible(&st, fair, me, write, false) {
            Self::take(&mut st, me, write);
            drop(st);
            self.rewake();
            true
        } else {
            false
        }
    }

    pub(crate) fn release(&self, write: bool) {
        {
            let mut st = self.st.borrow_mut();
            if write {
                st.writer = None;
            } else {
                let me = rt::me_opt().unwrap_or(usize::MAX);
                if let Some(p) = st.readers.iter().position(|t| *t == me) {
                    st.readers.remove(p);
                } else {
                    // guard released by another task than the one that took it (never in /repo)
                    st.readers.pop();
                }
            }
        }
        self.rewake();
    }

    pub(crate) fn write_held(&self) -> bool {
        self.st.borrow().writer.is_some()
    }
    pub(crate) fn held(&self) -> bool {
        let st = self.st.borrow();
        st.writer.is_some() || !st.readers.is_empty()
    }
}

// ------------------------------------------------------------------------------------------------
// parking_lot
// ------------------------------------------------------------------------------------------------
pub mod parking_lot {
    use super::*;

    pub struct Mutex<T: ?Sized> {
        raw: RawLock,
        data: UnsafeCell<T>,
    }
    unsafe impl<T: ?Sized + Send> Send for Mutex<T> {}
    unsafe impl<T: ?Sized + Send> Sync for Mutex<T> {}

    pub struct MutexGuard<'a, T: ?Sized> {
        m: &'a Mutex<T>,
        _not_send: std::marker::PhantomData<*const ()>,
    }

    impl<T> Mutex<T> {
        pub fn new(t: T) -> Self {
            Mutex { raw: RawLock::new(Policy::Mutex), data: UnsafeCell::new(t) }
        }
        pub fn into_inner(self) -> T {
            self.data.into_inner()
        }
    }
    impl<T: ?Sized> Mutex<T> {
        pub fn lock(&self) -> MutexGuard<'_, T> {
            self.raw.acquire(true, false);
            MutexGuard { m: self, _not_send: std::marker::PhantomData }
        }
        pub fn try_lock(&self) -> Option<MutexGuard<'_, T>> {
            if self.raw.try_acquire(true) {
                Some(MutexGuard { m: self, _not_send: std::marker::PhantomData })
            } else {
                None
            }
        }
        pub fn is_locked(&self) -> bool {
            self.raw.held()
        }
        pub fn get_mut(&mut self) -> &mut T {
            self.data.get_mut()
        }
        /// Not a scheduling point; `None` while locked.
        pub fn verif_peek(&self) -> Option<&T> {
            if self.raw.held() {
                None
            } else {
                Some(unsafe { &*self.data.get() })
            }
        }
    }
    impl<T: Default> Default for Mutex<T> {
        fn default() -> Self {
            Mutex::new(T::default())
        }
    }
    impl<'a, T: ?Sized> Deref for MutexGuard<'a, T> {
        type Target = T;
        fn deref(&self) -> &T {
            unsafe { &*self.m.data.get() }
        }
    }
    impl<'a, T: ?Sized> DerefMut for MutexGuard<'a, T> {
        fn deref_mut(&mut self) -> &mut T {
            unsafe { &mut *self.m.data.get() }
        }
    }
    impl<'a, T: ?Sized> Drop for MutexGuard<'a, T> {
        fn drop(&mut self) {
            self.m.raw.release(true);
        }
    }

    pub struct RwLock<T: ?Sized> {
        raw: RawLock,
        data: UnsafeCell<T>,
    }
    unsafe impl<T: ?Sized + Send> Send for RwLock<T> {}
    unsafe impl<T: ?Sized + Send + Sync> Sync for RwLock<T> {}

    pub struct RwLockReadGuard<'a, T: ?Sized> {
        l: &'a RwLock<T>,
        _not_send: std::marker::PhantomData<*const ()>,
    }
    pub struct RwLockWriteGuard<'a, T: ?Sized> {
        l: &'a RwLock<T>,
        _not_send: std::marker::PhantomData<*const ()>,
    }

    impl<T> RwLock<T> {
        pub fn new(t: T) -> Self {
            RwLock { raw: RawLock::new(Policy::RwParkingLot), data: UnsafeCell::new(t) }
        }
        pub fn into_inner(self) -> T {
            self.data.into_inner()
        }
    }
    impl<T: ?Sized> RwLock<T> {
        pub fn read(&self) -> RwLockReadGuard<'_, T> {
            self.raw.acquire(false, false);
            RwLockReadGuard { l: self, _not_send: std::marker::PhantomData }
        }
        pub fn read_recursive(&self) -> RwLockReadGuard<'_, T> {
            self.raw.acquire(false, true);
            RwLockReadGuard { l: self, _not_send: std::marker::PhantomData }
        }
        pub fn write(&self) -> RwLockWriteGuard<'_, T> {
            self.raw.acquire(true, false);
            RwLockWriteGuard { l: self, _not_send: std::marker::PhantomData }
        }
        pub fn try_read(&self) -> Option<RwLockReadGuard<'_, T>> {
            if self.raw.try_acquire(false) {
                Some(RwLockReadGuard { l: self, _not_send: std::marker::PhantomData })
            } else {
                None
            }
        }
        pub fn try_write(&self) -> Option<RwLockWriteGuard<'_, T>> {
            if self.raw.try_acquire(true) {
                Some(RwLockWriteGuard { l: self, _not_send: std::marker::PhantomData })
            } else {
                None
            }
        }
        pub fn is_locked(&self) -> bool {
            self.raw.held()
        }
        pub fn is_locked_exclusive(&self) -> bool {
            self.raw.write_held()
        }
        pub fn get_mut(&mut self) -> &mut T {
            self.data.get_mut()
        }
        /// What a reader could see right now; `None` while write-locked. Not a scheduling point.
        pub fn verif_peek(&self) -> Option<&T> {
            if self.raw.write_held() {
                None
            } else {
                Some(unsafe { &*self.data.get() })
            }
        }
    }
    impl<T: Default> Default for RwLock<T> {
        fn default() -> Self {
            RwLock::new(T::default())
        }
    }
    impl<'a, T: ?Sized> Deref for RwLockReadGuard<'a, T> {
        type Target = T;
        fn deref(&self) -> &T {
            unsafe { &*self.l.data.get() }
        }
    }
    impl<'a, T: ?Sized> Drop for RwLockReadGuard<'a, T> {
        fn drop(&mut self) {
            self.l.raw.release(false);
        }
    }
    impl<'a, T: ?Sized> Deref for RwLockWriteGuard<'a, T> {
        type Target = T;
        fn deref(&self) -> &T {
            unsafe { &*self.l.data.get() }
        }
    }
    impl<'a, T: ?Sized> DerefMut for RwLockWriteGuard<'a, T> {
        fn deref_mut(&mut self) -> &mut T {
            unsafe { &mut *self.l.data.get() }
        }
    }
    impl<'a, T: ?Sized> Drop for RwLockWriteGuard<'a, T> {
        fn drop(&mut self) {
            self.l.raw.release(true);
        }
    }
}

pub fn peek_rwlock_copy<T: Copy>(l: &parking_lot::RwLock<T>) -> Option<T> {
    l.verif_peek().copied()
}

// ------------------------------------------------------------------------------------------------
// hashbrown::HashMap: deterministic, insertion ordered (tiny maps)
// ------------------------------------------------------------------------------------------------
pub mod hashbrown {
    #[derive(Clone, Debug)]
    pub struct HashMap<K, V> {
        items: Vec<(K, V)>,
    }
    impl<K: Eq, V> Default for HashMap<K, V> {
        fn default() -> Self {
            Self::new()
        }
    }
    impl<K: Eq, V> HashMap<K, V> {
        pub fn new() -> Self {
            HashMap { items: Vec::new() }
        }
        pub fn with_capacity(_c: usize) -> Self {
            Self::new()
        }
        pub fn len(&self) -> usize {
            self.items.len()
        }
        pub fn is_empty(&self) -> bool {
            self.items.is_empty()
        }
        pub fn insert(&mut self, k: K, v: V) -> Option<V> {
            for it in self.items.iter_mut() {
                if it.0 == k {
                    return Some(std::mem::replace(&mut it.1, v));
                }
            }
            self.items.push((k, v));
            None
        }
        pub fn remove(&mut self, k: &K) -> Option<V> {
            let p = self.items.iter().position(|it| &it.0 == k)?;
            Some(self.items.remove(p).1)
        }
        pub fn remove_entry(&mut self, k: &K) -> Option<(K, V)> {
            let p = self.items.iter().position(|it| &it.0 == k)?;
            Some(self.items.remove(p))
        }
        pub fn get(&self, k: &K) -> Option<&V> {
            self.items.iter().find(|it| &it.0 == k).map(|it| &it.1)
        }
        pub fn get_mut(&mut self, k: &K) -> Option<&mut V> {
            self.items.iter_mut().find(|it| &it.0 == k).map(|it| &mut it.1)
        }
        pub fn get_key_value(&self, k: &K) -> Option<(&K, &V)> {
            self.items.iter().find(|it| &it.0 == k).map(|it| (&it.0, &it.1))
        }
        pub fn contains_key(&self, k: &K) -> bool {
            self.items.iter().any(|it| &it.0 == k)
        }
        pub fn clear(&mut self) {
            self.items.clear();
        }
        pub fn retain<F: FnMut(&K, &mut V) -> bool>(&mut self, mut f: F) {
            self.items.retain_mut(|it| f(&it.0, &mut it.1));
        }
        pub fn iter(&self) -> impl Iterator<Item = (&K, &V)> {
            self.items.iter().map(|it| (&it.0, &it.1))
        }
        pub fn iter_mut(&mut self) -> impl Iterator<Item = (&K, &mut V)> {
            self.items.iter_mut().map(|it| (&it.0, &mut it.1))
        }
        pub fn keys(&self) -> impl Iterator<Item = &K> {
            self.items.iter().map(|it| &it.0)
        }
        pub fn values(&self) -> impl Iterator<Item = &V> {
            self.items.iter().map(|it| &it.1)
        }
        pub fn drain(&mut self) -> std::vec::Drain<'_, (K, V)> {
            self.items.drain(..)
        }
        pub fn values_mut(&mut self) -> impl Iterator<Item = &mut V> {
            self.items.iter_mut().map(|it| &mut it.1)
        }
        pub fn entry(&mut self, k: K) -> Entry<'_, K, V> {
            Entry { map: self, key: k }
        }
    }
    /// The part of the entry API that plain code uses (`entry(k).or_insert(v)` and friends).
    pub struct Entry<'a, K, V> {
        map: &'a mut HashMap<K, V>,
        key: K,
    }
    impl<'a, K: Eq, V> Entry<'a, K, V> {
        pub fn key(&self) -> &K {
            &self.key
        }
        pub fn or_insert_with<F: FnOnce() -> V>(self, f: F) -> &'a mut V {
            let p = match self.map.items.iter().position(|it| it.0 == self.key) {
                Some(p) => p,
                None => {
                    self.map.items.push((self.key, f()));
                    self.map.items.len() - 1
                }
            };
            &mut self.map.items[p].1
        }
        pub fn or_insert(self, v: V) -> &'a mut V {
            self.or_insert_with(|| v)
        }
        pub fn or_default(self) -> &'a mut V
        where
            V: Default,
        {
            self.or_insert_with(V::default)
        }
        pub fn and_modify<F: FnOnce(&mut V)>(self, f: F) -> Self {
            if let Some(it) = self.map.items.iter_mut().find(|it| it.0 == self.key) {
                f(&mut it.1);
            }
            self
        }
    }
    impl<K: Eq, V> std::iter::FromIterator<(K, V)> for HashMap<K, V> {
        fn from_iter<I: IntoIterator<Item = (K, V)>>(iter: I) -> Self {
            let mut m = HashMap::new();
            for (k, v) in iter {
                m.insert(k, v);
            }
            m
        }
    }
    impl<K: Eq, V> Extend<(K, V)> for HashMap<K, V> {
        fn extend<I: IntoIterator<Item = (K, V)>>(&mut self, iter: I) {
            for (k, v) in iter {
                self.insert(k, v);
            }
        }
    }
    impl<K, V> IntoIterator for HashMap<K, V> {
        type Item = (K, V);
        type IntoIter = std::vec::IntoIter<(K, V)>;
        fn into_iter(self) -> Self::IntoIter {
            self.items.into_iter()
        }
    }
}

// ------------------------------------------------------------------------------------------------
// dashmap 5.4: sharded map, every access takes the shard's lock like the real one
// ------------------------------------------------------------------------------------------------
pub mod dashmap {
    use super::*;
    use std::sync::Arc;

    struct Shard<K, V> {
        lock: RawLock,
        data: UnsafeCell<Vec<(K, V)>>,
    }

    pub struct DashMap<K, V> {
        shards: Box<[Shard<K, V>]>,
    }
    unsafe impl<K: Send, V: Send> Send for DashMap<K, V> {}
    unsafe impl<K: Send + Sync, V: Send + Sync> Sync for DashMap<K, V> {}

    pub struct ShardGuard<'a> {
        lock: &'a RawLock,
        write: bool,
    }
    impl<'a> Drop for ShardGuard<'a> {
        fn drop(&mut self) {
            self.lock.release(self.write);
        }
    }

    pub mod mapref {
        pub mod one {
            pub use super::super::{Ref, RefMut};
        }
        pub mod multiple {
            pub use super::super::RefMulti;
        }
    }

    pub struct Entry<'a, K, V> {
        map: &'a DashMap<K, V>,
        shard: usize,
        g: ShardGuard<'a>,
        key: K,
    }
    impl<'a, K: Eq + Hash, V> Entry<'a, K, V> {
        pub fn key(&self) -> &K {
            &self.key
        }
        pub fn or_insert_with(self, f: impl FnOnce() -> V) -> RefMut<'a, K, V> {
            let d = unsafe { self.map.data(self.shard) };
            let p = match d.iter().position(|it| it.0 == self.key) {
                Some(p) => p,
                None => {
                    d.push((self.key, f()));
                    d.len() - 1
                }
            };
            let it = &mut d[p];
            RefMut { _g: self.g, k: &it.0 as *const K, v: &mut it.1 as *mut V }
        }
        pub fn or_insert(self, v: V) -> RefMut<'a, K, V> {
            self.or_insert_with(|| v)
        }
        pub fn or_default(self) -> RefMut<'a, K, V>
        where
            V: Default,
        {
            self.or_insert_with(V::default)
        }
        pub fn and_modify(self, f: impl FnOnce(&mut V)) -> Self {
            let d = unsafe { self.map.data(self.shard) };
            if let Some(it) = d.iter_mut().find(|it| it.0 == self.key) {
                f(&mut it.1);
            }
            self
        }
    }

    pub struct Ref<'a, K, V> {
        _g: ShardGuard<'a>,
        k: *const K,
        v: *const V,
    }
    pub struct RefMut<'a, K, V> {
        _g: ShardGuard<'a>,
        k: *const K,
        v: *mut V,
    }
    pub struct RefMulti<'a, K, V> {
        _g: Arc<ShardGuard<'a>>,
        k: *const K,
        v: *const V,
    }
    impl<'a, K, V> Ref<'a, K, V> {
        pub fn key(&self) -> &K {
            unsafe { &*self.k }
        }
        pub fn value(&self) -> &V {
            unsafe { &*self.v }
        }
        pub fn pair(&self) -> (&K, &V) {
            (self.key(), self.value())
        }
    }
    impl<'a, K, V> Deref for Ref<'a, K, V> {
        type Target = V;
        fn deref(&self) -> &V {
            self.value()
        }
    }
    impl<'a, K, V> RefMut<'a, K, V> {
        pub fn key(&self) -> &K {
            unsafe { &*self.k }
        }
        pub fn value(&self) -> &V {
            unsafe { &*self.v }
        }
        pub fn value_mut(&mut self) -> &mut V {
            unsafe { &mut *self.v }
        }
        pub fn pair(&self) -> (&K, &V) {
            (self.key(), self.value())
        }
        pub fn pair_mut(&mut self) -> (&K, &mut V) {
            unsafe { (&*self.k, &mut *self.v) }
        }
    }
    impl<'a, K, V> Deref for RefMut<'a, K, V> {
        type Target = V;
        fn deref(&self) -> &V {
            self.value()
        }
    }
    impl<'a, K, V> DerefMut for RefMut<'a, K, V> {
        fn deref_mut(&mut self) -> &mut V {
            self.value_mut()
        }
    }
    impl<'a, K, V> RefMulti<'a, K, V> {
        pub fn key(&self) -> &K {
            unsafe { &*self.k }
        }
        pub fn value(&self) -> &V {
            unsafe { &*self.v }
        }
        pub fn pair(&self) -> (&K, &V) {
            (self.key(), self.value())
        }
    }
    impl<'a, K, V> Deref for RefMulti<'a, K, V> {
        type Target = V;
        fn deref(&self) -> &V {
            self.value()
        }
    }

    pub fn fixed_hash<K: Hash + ?Sized>(k: &K) -> u64 {
        let mut h = std::collections::hash_map::DefaultHasher::new();
        k.hash(&mut h);
        h.finish()
    }

    impl<K: Eq + Hash, V> DashMap<K, V> {
        pub fn new() -> Self {
            Self::with_capacity_and_shard_amount(0, 4)
        }
        pub fn with_capacity(c: usize) -> Self {
            Self::with_capacity_and_shard_amount(c, 4)
        }
        pub fn with_shard_amount(s: usize) -> Self {
            Self::with_capacity_and_shard_amount(0, s)
        }
        pub fn with_capacity_and_shard_amount(_cap: usize, shards: usize) -> Self {
            assert!(shards > 1);
            assert!(shards.is_power_of_two());
            DashMap { shards: (0..shards).map(|_| Shard { lock: RawLock::new(Policy::RwDash), data: UnsafeCell::new(Vec::new()) }).collect() }
        }
        pub fn verif_shard_of(&self, k: &K) -> usize {
            if world::cfg().dash_single_shard {
                0
            } else {
                (fixed_hash(k) as usize) % self.shards.len()
            }
        }
        fn rd(&self, i: usize) -> ShardGuard<'_> {
            self.shards[i].lock.acquire(false, false);
            ShardGuard { lock: &self.shards[i].lock, write: false }
        }
        fn wr(&self, i: usize) -> ShardGuard<'_> {
            self.shards[i].lock.acquire(true, false);
            ShardGuard { lock: &self.shards[i].lock, write: true }
        }
        #[allow(clippy::mut_from_ref)]
        unsafe fn data(&self, i: usize) -> &mut Vec<(K, V)> {
            &mut *self.shards[i].data.get()
        }
        pub fn insert(&self, k: K, v: V) -> Option<V> {
            let i = self.verif_shard_of(&k);
            let _g = self.wr(i);
            let d = unsafe { self.data(i) };
            for it in d.iter_mut() {
                if it.0 == k {
                    return Some(std::mem::replace(&mut it.1, v));
                }
            }
            d.push((k, v));
            None
        }
        pub fn remove(&self, k: &K) -> Option<(K, V)> {
            let i = self.verif_shard_of(k);
            let _g = self.wr(i);
            let d = unsafe { self.data(i) };
            let p = d.iter().position(|it| &it.0 == k)?;
            Some(d.remove(p))
        }
        pub fn remove_if(&self, k: &K, f: impl FnOnce(&K, &V) -> bool) -> Option<(K, V)> {
            let i = self.verif_shard_of(k);
            let _g = self.wr(i);
            let d = unsafe { self.data(i) };
            let p = d.iter().position(|it| &it.0 == k)?;
            if f(&d[p].0, &d[p].1) {
                Some(d.remove(p))
            } else {
                None
            }
        }
        pub fn contains_key(&self, k: &K) -> bool {
            let i = self.verif_shard_of(k);
            let _g = self.rd(i);
            let d = unsafe { self.data(i) };
            d.iter().any(|it| &it.0 == k)
        }
        pub fn get(&self, k: &K) -> Option<Ref<'_, K, V>> {
            let i = self.verif_shard_of(k);
            let g = self.rd(i);
            let d = unsafe { self.data(i) };
            let it = d.iter().find(|it| &it.0 == k)?;
            Some(Ref { _g: g, k: &it.0 as *const K, v: &it.1 as *const V })
        }
        pub fn get_mut(&self, k: &K) -> Option<RefMut<'_, K, V>> {
            let i = self.verif_shard_of(k);
            let g = self.wr(i);
            let d = unsafe { self.data(i) };
            let it = d.iter_mut().find(|it| &it.0 == k)?;
            Some(RefMut { _g: g, k: &it.0 as *const K, v: &mut it.1 as *mut V })
        }
        /// `entry(k)`: takes the shard's write lock like the real one and keeps it until the entry is consumed.
        pub fn entry(&self, k: K) -> Entry<'_, K, V> {
            let i = self.verif_shard_of(&k);
            let g = self.wr(i);
            Entry { map: self, shard: i, g, key: k }
        }
        pub fn len(&self) -> usize {
            let mut n = 0;
            for i in 0..self.shards.len() {
                let _g = self.rd(i);
                n += unsafe { self.data(i) }.len();
            }
            n
        }
        pub fn is_empty(&self) -> bool {
            self.len() == 0
        }
        pub fn clear(&self) {
            for i in 0..self.shards.len() {
                let _g = self.wr(i);
                unsafe { self.data(i) }.clear();
            }
        }
        pub fn retain(&self, mut f: impl FnMut(&K, &mut V) -> bool) {
            for i in 0..self.shards.len() {
                let _g = self.wr(i);
                unsafe { self.data(i) }.retain_mut(|it| f(&it.0, &mut it.1));
            }
        }
        pub fn alter(&self, k: &K, f: impl FnOnce(&K, V) -> V) {
            let i = self.verif_shard_of(k);
            let _g = self.wr(i);
            let d = unsafe { self.data(i) };
            if let Some(p) = d.iter().position(|it| &it.0 == k) {
                let (k, v) = d.remove(p);
                let v = f(&k, v);
                d.insert(p, (k, v));
            }
        }
        pub fn iter(&self) -> Iter<'_, K, V> {
            Iter { map: self, shard: 0, cur: None }
        }
        /// Entries without taking any lock (harness only, outside the window).
        pub fn verif_raw_len(&self) -> usize {
            (0..self.shards.len()).map(|i| unsafe { self.data(i) }.len()).sum()
        }
    }
    impl<K: Eq + Hash, V> Default for DashMap<K, V> {
        fn default() -> Self {
            Self::new()
        }
    }

    pub struct Iter<'a, K, V> {
        map: &'a DashMap<K, V>,
        shard: usize,
        cur: Option<(Arc<ShardGuard<'a>>, std::vec::IntoIter<(*const K, *const V)>)>,
    }
    impl<'a, K: Eq + Hash, V> Iterator for Iter<'a, K, V> {
        type Item = RefMulti<'a, K, V>;
        fn next(&mut self) -> Option<Self::Item> {
            loop {
                if let Some((g, it)) = self.cur.as_mut() {
                    if let Some((k, v)) = it.next() {
                        return Some(RefMulti { _g: g.clone(), k, v });
                    }
                }
                if self.shard >= self.map.shards.len() {
                    // like the real iterator, the last shard's guard lives until the iterator is dropped
                    return None;
                }
                // like dashmap 5.4: the next shard is locked before the previous guard is released
                let g = self.map.rd(self.shard);
                let d = unsafe { self.map.data(self.shard) };
                self.shard += 1;
                let mut items: Vec<(*const K, *const V)> = d.iter().map(|it| (&it.0 as *const K, &it.1 as *const V)).collect();
                if world::cfg().iter_order_is_choice && items.len() > 1 {
                    // every order the real map (per-instance RandomState) could produce
                    let n = items.len();
                    for i in 0..n - 1 {
                        let j = i + world::choice(n - i);
                        items.swap(i, j);
                    }
                }
                self.cur = Some((Arc::new(g), items.into_iter()));
            }
        }
    }
}

// ------------------------------------------------------------------------------------------------
// crossbeam-channel (bounded / unbounded MPMC, tick, select!{send, default})
// ------------------------------------------------------------------------------------------------
pub mod crossbeam_channel {
    use super::*;
    use std::collections::VecDeque;
    use std::sync::Arc;
    use std::time::{Duration, Instant};

    #[derive(PartialEq, Eq, Clone, Copy)]
    pub struct SendError<T>(pub T);
    impl<T> std::fmt::Debug for SendError<T> {
        fn fmt(&self, f: &mut std::fmt::Formatter<'_>) -> std::fmt::Result {
            write!(f, "SendError(..)")
        }
    }
    impl<T> std::fmt::Display for SendError<T> {
        fn fmt(&self, f: &mut std::fmt::Formatter<'_>) -> std::fmt::Result {
            write!(f, "sending on a disconnected channel")
        }
    }
    impl<T> SendError<T> {
        pub fn into_inner(self) -> T {
            self.0
        }
    }
    #[derive(PartialEq, Eq, Clone, Copy)]
    pub enum TrySendError<T> {
        Full(T),
        Disconnected(T),
    }
    impl<T> std::fmt::Debug for TrySendError<T> {
        fn fmt(&self, f: &mut std::fmt::Formatter<'_>) -> std::fmt::Result {
            match self {
                TrySendError::Full(_) => write!(f, "Full(..)"),
                TrySendError::Disconnected(_) => write!(f, "Disconnected(..)"),
            }
        }
    }
    impl<T> TrySendError<T> {
        pub fn into_inner(self) -> T {
            match self {
                TrySendError::Full(t) | TrySendError::Disconnected(t) => t,
            }
        }
        pub fn is_full(&self) -> bool {
            matches!(self, TrySendError::Full(_))
        }
        pub fn is_disconnected(&self) -> bool {
            matches!(self, TrySendError::Disconnected(_))
        }
    }
    #[derive(PartialEq, Eq, Clone, Copy, Debug)]
    pub struct RecvError;
    impl std::fmt::Display for RecvError {
        fn fmt(&self, f: &mut std::fmt::Formatter<'_>) -> std::fmt::Result {
            write!(f, "receiving on an empty and disconnected channel")
        }
    }
    #[derive(PartialEq, Eq, Clone, Copy, Debug)]
    pub enum TryRecvError {
        Empty,
        Disconnected,
    }
    #[derive(PartialEq, Eq, Clone, Copy, Debug)]
    pub enum RecvTimeoutError {
        Timeout,
        Disconnected,
    }

    struct Chan<T> {
        q: VecDeque<T>,
        cap: Option<usize>,
        senders: usize,
        receivers: usize,
        wait_s: Vec<usize>,
        wait_r: Vec<usize>,
    }
    struct ChanCell<T>(RefCell<Chan<T>>);
    unsafe impl<T: Send> Send for ChanCell<T> {}
    unsafe impl<T: Send> Sync for ChanCell<T> {}

    impl<T> ChanCell<T> {
        fn rewake(&self) {
            let c = self.0.borrow();
            let can_send = c.receivers == 0 || c.cap.map(|cap| c.q.len() < cap).unwrap_or(true);
            let can_recv = !c.q.is_empty() || c.senders == 0;
            for t in c.wait_s.iter() {
                if can_send {
                    rt::unblock(*t)
                } else {
                    rt::reblock(*t)
                }
            }
            for t in c.wait_r.iter() {
                if can_recv {
                    rt::unblock(*t)
                } else {
                    rt::reblock(*t)
                }
            }
        }
    }

    pub struct Sender<T> {
        c: Arc<ChanCell<T>>,
    }
    pub struct Receiver<T> {
        c: Arc<ChanCell<T>>,
    }

    fn make<T>(cap: Option<usize>) -> (Sender<T>, Receiver<T>) {
        let c = Arc::new(ChanCell(RefCell::new(Chan { q: VecDeque::new(), cap, senders: 1, receivers: 1, wait_s: Vec::new(), wait_r: Vec::new() })));
        (Sender { c: c.clone() }, Receiver { c })
    }
    pub fn bounded<T>(cap: usize) -> (Sender<T>, Receiver<T>) {
        assert!(cap > 0, "zero-capacity (rendezvous) channels are not modelled by the shim");
        // the access-count channel has a fixed capacity of 10 in the code; scenarios may shrink it
        let cap = match (cap, world::cfg().access_channel_cap) {
            (10, Some(c)) => c,
            _ => cap,
        };
        make(Some(cap))
    }
    pub fn unbounded<T>() -> (Sender<T>, Receiver<T>) {
        make(None)
    }

    impl<T> Clone for Sender<T> {
        fn clone(&self) -> Self {
            self.c.0.borrow_mut().senders += 1;
            Sender { c: self.c.clone() }
        }
    }
    impl<T> Drop for Sender<T> {
        fn drop(&mut self) {
            // disconnecting is a visible operation (it changes what receivers observe): scheduling point first
            if self.c.0.borrow().senders == 1 {
                rt::switch();
            }
            let last = {
                let mut c = self.c.0.borrow_mut();
                c.senders -= 1;
                c.senders == 0
            };
            if last {
                self.c.rewake();
            }
        }
    }
    impl<T> Clone for Receiver<T> {
        fn clone(&self) -> Self {
            self.c.0.borrow_mut().receivers += 1;
            Receiver { c: self.c.clone() }
        }
    }
    impl<T> Drop for Receiver<T> {
        fn drop(&mut self) {
            // disconnecting is a visible operation (later sends fail, queued messages are discarded)
            if self.c.0.borrow().receivers == 1 {
                rt::switch();
            }
            let (last, dropped) = {
                let mut c = self.c.0.borrow_mut();
                c.receivers -= 1;
                if c.receivers == 0 {
                    // crossbeam discards the queued messages when the last receiver goes away
                    let d: Vec<T> = c.q.drain(..).collect();
                    (true, d)
                } else {
                    (false, Vec::new())
                }
            };
            drop(dropped);
            if last {
                self.c.rewake();
            }
        }
    }

    impl<T> Sender<T> {
        pub fn send(&self, t: T) -> Result<(), SendError<T>> {
            rt::switch();
            let mut t = Some(t);
            loop {
                {
                    let mut c = self.c.0.borrow_mut();
                    if c.receivers == 0 {
                        return Err(SendError(t.take().unwrap()));
                    }
                    if c.cap.map(|cap| c.q.len() < cap).unwrap_or(true) {
                        c.q.push_back(t.take().unwrap());
                        let me = rt::me_opt().unwrap_or(usize::MAX);
                        c.wait_s.retain(|x| *x != me);
                        drop(c);
                        self.c.rewake();
                        return Ok(());
                    }
                    if !rt::alive() {
                        return Err(SendError(t.take().unwrap()));
                    }
                    let me = rt::me();
                    if !c.wait_s.contains(&me) {
                        c.wait_s.push(me);
                    }
                }
                rt::block_current();
                rt::switch();
                let me = rt::me();
                self.c.0.borrow_mut().wait_s.retain(|x| *x != me);
            }
        }
        pub fn try_send(&self, t: T) -> Result<(), TrySendError<T>> {
            rt::switch();
            let mut c = self.c.0.borrow_mut();
            if c.receivers == 0 {
                return Err(TrySendError::Disconnected(t));
            }
            if c.cap.map(|cap| c.q.len() < cap).unwrap_or(true) {
                c.q.push_back(t);
                drop(c);
                self.c.rewake();
                Ok(())
            } else {
                Err(TrySendError::Full(t))
            }
        }
        /// First half of `select! { send(..) -> .., default => .. }`: one scheduling point, then whether the send
        /// arm is ready (room in the queue, or disconnected). The second half (`try_send_now`) runs without a
        /// scheduling point in between, so the pair is atomic like `try_send`.
        pub fn verif_send_ready(&self) -> bool {
            rt::switch();
            let c = self.c.0.borrow();
            c.receivers == 0 || c.cap.map(|cap| c.q.len() < cap).unwrap_or(true)
        }
        pub fn verif_send_now(&self, t: T) -> Result<(), SendError<T>> {
            let mut c = self.c.0.borrow_mut();
            if c.receivers == 0 {
                return Err(SendError(t));
            }
            c.q.push_back(t);
            drop(c);
            self.c.rewake();
            Ok(())
        }
        pub fn len(&self) -> usize {
            self.c.0.borrow().q.len()
        }
        pub fn is_empty(&self) -> bool {
            self.len() == 0
        }
        pub fn is_full(&self) -> bool {
            let c = self.c.0.borrow();
            c.cap.map(|cap| c.q.len() >= cap).unwrap_or(false)
        }
        pub fn capacity(&self) -> Option<usize> {
            self.c.0.borrow().cap
        }
    }

    impl<T> Receiver<T> {
        pub fn recv(&self) -> Result<T, RecvError> {
            rt::switch();
            loop {
                {
                    let mut c = self.c.0.borrow_mut();
                    if let Some(x) = c.q.pop_front() {
                        let me = rt::me_opt().unwrap_or(usize::MAX);
                        c.wait_r.retain(|y| *y != me);
                        drop(c);
                        self.c.rewake();
                        return Ok(x);
                    }
                    if c.senders == 0 || !rt::alive() {
                        return Err(RecvError);
                    }
                    let me = rt::me();
                    if !c.wait_r.contains(&me) {
                        c.wait_r.push(me);
                    }
                }
                rt::block_current();
                rt::switch();
                let me = rt::me();
                self.c.0.borrow_mut().wait_r.retain(|x| *x != me);
            }
        }
        pub fn try_recv(&self) -> Result<T, TryRecvError> {
            rt::switch();
            let mut c = self.c.0.borrow_mut();
            if let Some(x) = c.q.pop_front() {
                drop(c);
                self.c.rewake();
                return Ok(x);
            }
            if c.senders == 0 {
                Err(TryRecvError::Disconnected)
            } else {
                Err(TryRecvError::Empty)
            }
        }
        /// Time is not modelled: a timed receive either finds a message or times out at once.
        pub fn recv_timeout(&self, _d: Duration) -> Result<T, RecvTimeoutError> {
            match self.try_recv() {
                Ok(x) => Ok(x),
                Err(TryRecvError::Empty) => Err(RecvTimeoutError::Timeout),
                Err(TryRecvError::Disconnected) => Err(RecvTimeoutError::Disconnected),
            }
        }
        pub fn iter(&self) -> Iter<'_, T> {
            Iter { r: self }
        }
        pub fn try_iter(&self) -> TryIter<'_, T> {
            TryIter { r: self }
        }
        pub fn len(&self) -> usize {
            self.c.0.borrow().q.len()
        }
        pub fn is_empty(&self) -> bool {
            self.len() == 0
        }
        pub fn is_full(&self) -> bool {
            let c = self.c.0.borrow();
            c.cap.map(|cap| c.q.len() >= cap).unwrap_or(false)
        }
        pub fn capacity(&self) -> Option<usize> {
            self.c.0.borrow().cap
        }
    }
    pub struct Iter<'a, T> {
        r: &'a Receiver<T>,
    }
    impl<'a, T> Iterator for Iter<'a, T> {
        type Item = T;
        fn next(&mut self) -> Option<T> {
            self.r.recv().ok()
        }
    }
    pub struct TryIter<'a, T> {
        r: &'a Receiver<T>,
    }
    impl<'a, T> Iterator for TryIter<'a, T> {
        type Item = T;
        fn next(&mut self) -> Option<T> {
            self.r.try_recv().ok()
        }
    }
    impl<'a, T> IntoIterator for &'a Receiver<T> {
        type Item = T;
        type IntoIter = Iter<'a, T>;
        fn into_iter(self) -> Iter<'a, T> {
            self.iter()
        }
    }
    pub struct IntoIter<T> {
        r: Receiver<T>,
    }
    impl<T> Iterator for IntoIter<T> {
        type Item = T;
        fn next(&mut self) -> Option<T> {
            self.r.recv().ok()
        }
    }
    impl<T> IntoIterator for Receiver<T> {
        type Item = T;
        type IntoIter = IntoIter<T>;
        fn into_iter(self) -> IntoIter<T> {
            IntoIter { r: self }
        }
    }

    /// The sweeper's timer: a channel whose sender the harness keeps (manual ticks).
    pub fn tick(_d: Duration) -> Receiver<Instant> {
        let (s, r) = bounded(1);
        world::with(|w| w.tick_senders.push(s));
        r
    }
    /// `after` is the one-shot variant; also harness driven.
    pub fn after(d: Duration) -> Receiver<Instant> {
        tick(d)
    }

    pub fn select_send_or_default<T>(s: &Sender<T>, e: T) -> Option<Result<(), SendError<T>>> {
        match s.try_send(e) {
            Ok(()) => Some(Ok(())),
            Err(TrySendError::Full(_)) => None,
            Err(TrySendError::Disconnected(v)) => Some(Err(SendError(v))),
        }
    }
    pub fn select_recv_or_default<T>(r: &Receiver<T>) -> Option<Result<T, RecvError>> {
        match r.try_recv() {
            Ok(x) => Some(Ok(x)),
            Err(TryRecvError::Empty) => None,
            Err(TryRecvError::Disconnected) => Some(Err(RecvError)),
        }
    }

    macro_rules! select {
        // the message expression is evaluated in the send arm only (as in the real macro), so the default arm may
        // still use the value it would have sent
        (send($s:expr, $e:expr) -> $r:ident => $a:block $(,)? default => $d:block $(,)?) => {{
            if $s.verif_send_ready() {
                let $r = $s.verif_send_now($e);
                $a
            } else {
                $d
            }
        }};
        (send($s:expr, $e:expr) -> $r:ident => $a:expr, default => $d:expr $(,)?) => {{
            if $s.verif_send_ready() {
                let $r = $s.verif_send_now($e);
                $a
            } else {
                $d
            }
        }};
        (send($s:expr, $e:expr) -> $r:ident => $a:block $(,)?) => {{
            let $r = $s.send($e);
            $a
        }};
        (recv($rx:expr) -> $r:ident => $a:block $(,)? default => $d:block $(,)?) => {{
            match $crate::verif_rt::sync::crossbeam_channel::select_recv_or_default(&$rx) {
                Some($r) => $a,
                None => $d,
            }
        }};
        (recv($rx:expr) -> $r:ident => $a:block $(,)?) => {{
            let $r = $rx.recv();
            $a
        }};
    }
    pub(crate) use select;
}

// ------------------------------------------------------------------------------------------------
// std::thread
// ------------------------------------------------------------------------------------------------
pub mod thread {
    use super::*;
    pub use shuttle::thread::{current, panicking, park, sleep, yield_now, JoinHandle, Thread, ThreadId};

    pub fn spawn<F, T>(f: F) -> JoinHandle<T>
    where
        F: FnOnce() -> T + Send + 'static,
        T: Send + 'static,
    {
        let h = shuttle::thread::spawn(f);
        let id: usize = h.thread().id().into();
        world::try_with(|w| w.spawned.push(id));
        h
    }

    pub struct Builder {
        name: Option<String>,
    }
    impl Builder {
        pub fn new() -> Self {
            Builder { name: None }
        }
        pub fn name(mut self, n: String) -> Self {
            self.name = Some(n);
            self
        }
        pub fn stack_size(self, _s: usize) -> Self {
            self
        }
        pub fn spawn<F, T>(self, f: F) -> std::io::Result<JoinHandle<T>>
        where
            F: FnOnce() -> T + Send + 'static,
            T: Send + 'static,
        {
            Ok(spawn(f))
        }
    }
}

// ------------------------------------------------------------------------------------------------
// rand (only what /repo draws: a buffer index and the sketch seeds)
// ------------------------------------------------------------------------------------------------
pub mod rand {
    use super::*;
    pub struct ThreadRng;
    pub fn thread_rng() -> ThreadRng {
        ThreadRng
    }
    pub trait FromRng {
        fn from_u64(x: u64) -> Self;
    }
    impl FromRng for u64 {
        fn from_u64(x: u64) -> u64 {
            x
        }
    }
    impl FromRng for u32 {
        fn from_u64(x: u64) -> u32 {
            x as u32
        }
    }
    impl FromRng for usize {
        fn from_u64(x: u64) -> usize {
            x as usize
        }
    }
    impl FromRng for bool {
        fn from_u64(x: u64) -> bool {
            x & 1 == 1
        }
    }
    pub trait Rng {
        /// A uniformly drawn index becomes an explorer data choice (or 0 when the scenario pins it).
        fn gen_range(&mut self, r: std::ops::Range<usize>) -> usize {
            let n = r.end - r.start;
            if world::cfg().pool_index_is_choice {
                r.start + world::choice(n)
            } else {
                r.start
            }
        }
        /// Seeds come from the per-execution configuration, in order.
        fn gen<T: FromRng>(&mut self) -> T {
            let x = world::try_with(|w| {
                let s = w.cfg.sketch_seeds[w.seed_ctr % 4];
                w.seed_ctr += 1;
                s
            })
            .unwrap_or(0x9E37_79B9_7F4A_7C15);
            T::from_u64(x)
        }
    }
    impl Rng for ThreadRng {}
}

// ------------------------------------------------------------------------------------------------
// bloomfilter: the real filter with a fixed seed instead of getrandom
// ------------------------------------------------------------------------------------------------
pub mod bloomfilter {
    use std::hash::Hash;
    const SEED: [u8; 32] = [
        0x5a, 0x17, 0x3c, 0x99, 0x01, 0xfe, 0x42, 0x24, 0x77, 0x10, 0xab, 0xcd, 0xef, 0x12, 0x34, 0x56, 0x78, 0x9a, 0xbc, 0xde, 0xf0, 0x0f, 0x1e, 0x2d, 0x3c, 0x4b,
        0x5a, 0x69, 0x78, 0x87, 0x96, 0xa5,
    ];
    pub struct Bloom<T: ?Sized> {
        inner: ::bloomfilter::Bloom<T>,
    }
    impl<T: ?Sized + Hash> Bloom<T> {
        pub fn new_for_fp_rate(items_count: usize, fp_p: f64) -> Self {
            Bloom { inner: ::bloomfilter::Bloom::new_for_fp_rate_with_seed(items_count, fp_p, &SEED) }
        }
        pub fn new(bitmap_size: usize, items_count: usize) -> Self {
            Bloom { inner: ::bloomfilter::Bloom::new_with_seed(bitmap_size, items_count, &SEED) }
        }
        pub fn set(&mut self, item: &T) {
            self.inner.set(item)
        }
        pub fn check(&self, item: &T) -> bool {
            self.inner.check(item)
        }
        pub fn check_and_set(&mut self, item: &T) -> bool {
            self.inner.check_and_set(item)
        }
        pub fn clear(&mut self) {
            self.inner.clear()
        }
        pub fn number_of_bits(&self) -> u64 {
            self.inner.number_of_bits()
        }
        pub fn number_of_hash_functions(&self) -> u32 {
            self.inner.number_of_hash_functions()
        }
    }
}
