//! Per-execution state owned by the harness (sched backend: everything runs on one OS thread per
//! explorer worker, so a thread-local is the right scope).

use super::rt;
use std::cell::RefCell;
use std::collections::HashMap;

pub use crate::verif_rt::common::{Event, WorldCfg};

pub struct World {
    pub cfg: WorldCfg,
    pub events: Vec<Event>,
    pub counts: HashMap<&'static str, u64>,
    pub waiters: Vec<usize>,
    pub tick_senders: Vec<super::sync::crossbeam_channel::Sender<std::time::Instant>>,
    pub spawned: Vec<usize>,
    pub seed_ctr: usize,
    pub constructing: bool,
    pub seq: u64,
    pub next_lock_id: u32,
    /// what the harness' main task is blocked on right now (for deadlock reports)
    pub waiting_for: Option<(String, String)>,
}

impl World {
    fn new(cfg: WorldCfg) -> Self {
        World {
            cfg,
            events: Vec::new(),
            counts: HashMap::new(),
            waiters: Vec::new(),
            tick_senders: Vec::new(),
            spawned: Vec::new(),
            seed_ctr: 0,
            constructing: false,
            seq: 0,
            next_lock_id: 0,
            waiting_for: None,
        }
    }
}

thread_local! {
    static WORLD: RefCell<Option<World>> = RefCell::new(None);
}

/// Start of an execution (inside the shuttle run).
pub fn reset(cfg: WorldCfg) {
    WORLD.with(|w| *w.borrow_mut() = Some(World::new(cfg)));
}

/// End of an execution: drops tick senders etc. while the execution is still alive.
pub fn finish() {
    let w = WORLD.with(|w| w.borrow_mut().take());
    drop(w);
}

/// After an execution that unwound out of the runner: the objects refer to a dead execution.
pub fn abandon() {
    let w = WORLD.with(|w| w.borrow_mut().take());
    std::mem::forget(w);
}

pub fn with<R>(f: impl FnOnce(&mut World) -> R) -> R {
    WORLD.with(|w| {
        let mut g = w.borrow_mut();
        let w = g.as_mut().expect("verif_rt::world used outside an execution (call world::reset first)");
        f(w)
    })
}

pub fn try_with<R>(f: impl FnOnce(&mut World) -> R) -> Option<R> {
    WORLD.with(|w| match w.try_borrow_mut() {
        Ok(mut g) => g.as_mut().map(f),
        Err(_) => None,
    })
}

pub fn cfg() -> WorldCfg {
    try_with(|w| w.cfg.clone()).unwrap_or_default()
}

/// A total order on harness-visible instants of one execution.
pub fn stamp() -> u64 {
    with(|w| {
        w.seq += 1;
        w.seq
    })
}

pub fn record_event(kind: &'static str, text: &str, data: &[i64]) {
    let task = rt::me_opt().unwrap_or(usize::MAX);
    let waiters = try_with(|w| {
        w.seq += 1;
        let seq = w.seq;
        w.events.push(Event { kind, text: text.to_string(), data: data.to_vec(), task, seq });
        *w.counts.entry(kind).or_insert(0) += 1;
        std::mem::take(&mut w.waiters)
    });
    if let Some(ws) = waiters {
        for t in ws {
            rt::unblock(t);
        }
    }
}

pub fn count(kind: &'static str) -> u64 {
    with(|w| *w.counts.get(kind).unwrap_or(&0))
}

pub fn events() -> Vec<Event> {
    with(|w| w.events.clone())
}

/// Block the calling task until `pred` holds; re-evaluated after every event. Not a scheduling point unless it
/// has to block; if the condition can never hold shuttle reports a deadlock.
pub fn wait_until(pred: impl Fn(&World) -> bool) {
    wait_until_labelled(pred, "condition", |_| String::new())
}

/// `tag` / `describe` say what is being waited for; a deadlock report quotes them.
pub fn wait_until_labelled(pred: impl Fn(&World) -> bool, tag: &str, describe: impl Fn(&World) -> String) {
    loop {
        if with(|w| pred(w)) {
            with(|w| w.waiting_for = None);
            return;
        }
        let me = rt::me();
        with(|w| {
            w.waiters.push(me);
            let d = describe(w);
            w.waiting_for = Some((tag.to_string(), d));
        });
        rt::block_current();
        rt::switch();
    }
}

/// What the harness was waiting for when the execution stopped (deadlock diagnosis).
pub fn waiting_for() -> Option<(String, String)> {
    try_with(|w| w.waiting_for.clone()).flatten()
}

pub fn wait_event(kind: &'static str, at_least: u64) {
    wait_until_labelled(|w| *w.counts.get(kind).unwrap_or(&0) >= at_least, kind, |w| format!("waiting for event {} #{} (seen {})", kind, at_least, w.counts.get(kind).unwrap_or(&0)));
}

/// Quiescence of the command worker: every command handed to the channel has been acknowledged.
pub fn wait_commands_acked() {
    let counts = |w: &World| {
        let sent = *w.counts.get("command_sent").unwrap_or(&0);
        let acked = *w.counts.get("worker_acked").unwrap_or(&0);
        let failed = *w.counts.get("command_send_failed").unwrap_or(&0);
        (sent, acked, failed)
    };
    wait_until_labelled(
        |w| {
            let (sent, acked, failed) = counts(w);
            acked + failed >= sent
        },
        "command-acknowledgements",
        |w| {
            let (sent, acked, failed) = counts(w);
            format!("{} commands were queued but only {} acknowledged ({} failed sends): some acknowledgement never completes", sent, acked, failed)
        },
    );
}

pub fn take_tick_senders() -> Vec<super::sync::crossbeam_channel::Sender<std::time::Instant>> {
    with(|w| std::mem::take(&mut w.tick_senders))
}

/// Run `f` (the cache constructor) with the "constructing" mark set; returns the ids of the
/// tasks spawned meanwhile, in spawn order (consumer, sweeper, worker for `CacheD::new`).
pub fn constructing<R>(f: impl FnOnce() -> R) -> (R, Vec<usize>) {
    let before = with(|w| {
        w.constructing = true;
        w.spawned.len()
    });
    let r = f();
    let ids = with(|w| {
        w.constructing = false;
        w.spawned[before..].to_vec()
    });
    (r, ids)
}

pub fn choice(n: usize) -> usize {
    super::explore::choice(n)
}

/// Scheduling point requested by the harness (e.g. the clock, when something moves it).
pub fn sched_point() {
    rt::switch();
}
