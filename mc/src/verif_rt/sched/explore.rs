//! Stateless, preemption-bounded, exhaustive DFS over the schedules (and data choices) of a
//! harness body, driving shuttle's execution engine through its public `Scheduler` trait.
//!
//! * Decision stack: one frame per scheduling point / data choice inside the branching window.
//!   Option 0 is "keep running the current task" when it is still enabled, the others are the
//!   remaining enabled tasks in ascending id order. Leaving a still-enabled task costs one
//!   preemption (iterative context bounding, Musuvathi & Qadeer); everything else is free.
//! * Outside the window (set-up, tear-down) option 0 is always taken and no frame is pushed.
//! * A failing execution (deadlock, panic on a task) unwinds out of `Runner::run`; the stack
//!   survives in the thread-local core and the search resumes with a fresh runner.
//! * Parallel search: every worker enumerates the prefixes of length `split_depth` (one *probe*
//!   execution each) and fully explores only the sub-trees whose ordinal it owns.
//! * Replay: a recorded list of choices is followed verbatim; an out-of-range choice or a
//!   different option count is a replay divergence (machinery error, never a verdict).

use shuttle::scheduler::{Schedule, Scheduler, Task, TaskId};
use std::cell::RefCell;
use std::sync::atomic::{AtomicBool, AtomicU64, Ordering};
use std::sync::{Arc, Mutex};
use std::time::{Duration, Instant};

#[derive(Clone, Debug)]
pub struct Frame {
    pub n: u32,
    pub idx: u32,
    pub cur_runnable: bool,
    pub data: bool,
    pub pre_before: u32,
    pub sig: u64,
}

#[derive(Clone, Copy, Debug)]
pub struct Partition {
    pub depth: usize,
    pub worker: usize,
    pub workers: usize,
}

#[derive(Default)]
pub struct Core {
    pub stack: Vec<Frame>,
    pub step: usize,
    pub bound: u32,
    pub pre_now: u32,
    pub branching: bool,
    pub started: bool,
    pub done: bool,
    // replay mode
    pub replay: Option<Vec<u32>>,
    pub replay_diverged: Option<String>,
    // partitioning
    pub part: Option<Partition>,
    pub new_prefix_pending: bool,
    pub prefix_ordinal: u64,
    pub probe: bool,
    // frozen tasks
    pub frozen: Vec<usize>,
    pub starved: bool,
    // statistics
    pub executions: u64,
    pub probes: u64,
    pub nodes: u64,
    pub steps_window: u64,
    pub steps_all: u64,
    pub max_depth: usize,
    pub max_preemptions_used: u32,
    // caps
    pub max_executions: Option<u64>,
    pub deadline: Option<Instant>,
    pub capped: bool,
    pub stop_flag: Option<Arc<AtomicBool>>,
    // per execution tick (every call of next_task / choice), used for stamps
    pub tick: u64,
}

thread_local! {
    pub static CORE: RefCell<Core> = RefCell::new(Core::default());
    static MONITOR: RefCell<Option<Box<dyn FnMut()>>> = RefCell::new(None);
}

impl Core {
    fn cost(f: &Frame, idx: u32) -> u32 {
        if !f.data && f.cur_runnable && idx > 0 {
            1
        } else {
            0
        }
    }

    fn decide(&mut self, n: usize, cur_runnable: bool, data: bool, sig: u64) -> usize {
        self.steps_all += 1;
        if !self.branching {
            return 0;
        }
        self.steps_window += 1;
        let i = self.step;
        self.step += 1;
        if let Some(r) = &self.replay {
            if i < r.len() {
                let idx = r[i] as usize;
                if idx >= n {
                    if self.replay_diverged.is_none() {
                        self.replay_diverged = Some(format!("step {}: recorded choice {} but only {} options", i, idx, n));
                    }
                    return 0;
                }
                return idx;
            }
            return 0;
        }
        if i < self.stack.len() {
            let f = &self.stack[i];
            if !(f.n as usize == n && f.data == data && f.sig == sig && f.cur_runnable == cur_runnable) {
                // Divergence while replaying a DFS prefix: the harness does not own all nondeterminism.
                eprintln!(
                    "MACHINERY-ERROR replay divergence at step {}: recorded n={} data={} sig={:x} cur={} vs now n={} data={} sig={:x} cur={}",
                    i, f.n, f.data, f.sig, f.cur_runnable, n, data, sig, cur_runnable
                );
                std::process::exit(2);
            }
            self.pre_now = f.pre_before + Self::cost(f, f.idx);
            return f.idx as usize;
        }
        let f = Frame { n: n as u32, idx: 0, cur_runnable, data, pre_before: self.pre_now, sig };
        self.stack.push(f);
        if !self.probe {
            self.nodes += 1;
        }
        if self.stack.len() > self.max_depth {
            self.max_depth = self.stack.len();
        }
        0
    }

    /// Advance to the next unexplored branch within the preemption budget.
    fn backtrack(&mut self) {
        while let Some(f) = self.stack.last_mut() {
            let next = f.idx + 1;
            // every alternative of one frame costs the same, so one budget test suffices
            if next < f.n && f.pre_before + Self::cost(f, next) <= self.bound {
                f.idx = next;
                let used = f.pre_before + Self::cost(f, next);
                if used > self.max_preemptions_used {
                    self.max_preemptions_used = used;
                }
                return;
            }
            self.stack.pop();
        }
        self.done = true;
    }

    /// Work partitioning for the parallel search. An execution is identified by its deviations from
    /// the default schedule (frames with a non-zero choice). The sub-tree below the *second* deviation
    /// is a work unit owned by hash(first two deviations) mod workers; executions with fewer than two
    /// deviations are run by every worker (oracle and counters only on the owner) because their frames
    /// are needed to enumerate the units. Unowned units are skipped without running anything.
    fn advance_partitioned(&mut self) {
        loop {
            self.backtrack();
            if self.done {
                return;
            }
            let p = match self.part {
                Some(p) => p,
                None => {
                    self.probe = false;
                    return;
                }
            };
            let nz: Vec<(usize, u32)> = self.stack.iter().enumerate().filter(|(_, f)| f.idx > 0).map(|(i, f)| (i, f.idx)).collect();
            let owner = |k: &[(usize, u32)]| -> usize {
                let mut h: u64 = 0xcbf29ce484222325;
                for (i, a) in k {
                    h = (h ^ (*i as u64 + 1)).wrapping_mul(0x100000001b3);
                    h = (h ^ (*a as u64 + 7)).wrapping_mul(0x100000001b3);
                }
                ((h >> 7) % p.workers as u64) as usize
            };
            match nz.len() {
                0 | 1 => {
                    self.probe = owner(&nz) != p.worker;
                    return;
                }
                2 => {
                    if owner(&nz) != p.worker {
                        continue; // skip the whole unit: advance the same frame again
                    }
                    self.probe = false;
                    return;
                }
                _ => {
                    self.probe = false;
                    return;
                }
            }
        }
    }

    fn begin_execution(&mut self) -> bool {
        if self.replay.is_some() {
            if self.started {
                return false;
            }
            self.started = true;
        } else {
            if self.started {
                self.advance_partitioned();
            } else {
                self.started = true;
                // the all-default execution belongs to worker 0; the others run it to discover the frames
                self.probe = self.part.map(|p| p.worker != 0).unwrap_or(false);
            }
            if self.done {
                return false;
            }
            if let Some(m) = self.max_executions {
                if self.executions >= m {
                    self.capped = true;
                    return false;
                }
            }
            if let Some(d) = self.deadline {
                if Instant::now() >= d {
                    self.capped = true;
                    return false;
                }
            }
            if let Some(s) = &self.stop_flag {
                if s.load(Ordering::Relaxed) {
                    self.capped = true;
                    return false;
                }
            }
            if self.probe {
                self.probes += 1;
            } else {
                self.executions += 1;
            }
        }
        self.step = 0;
        self.pre_now = 0;
        self.branching = false;
        self.frozen.clear();
        self.starved = false;
        self.tick = 0;
        true
    }
}

/// A data choice point (buffer index, iteration order...). Free of preemption cost.
pub fn choice(n: usize) -> usize {
    if n <= 1 {
        return 0;
    }
    CORE.with(|c| {
        let mut c = c.borrow_mut();
        c.tick += 1;
        c.decide(n, false, true, 0xD47A_0000 ^ n as u64)
    })
}

/// Open / close the branching window.
pub fn window(on: bool) {
    CORE.with(|c| c.borrow_mut().branching = on);
    if !on {
        clear_monitor();
    }
}
pub fn in_window() -> bool {
    CORE.with(|c| c.borrow().branching)
}
/// True when this execution only enumerates a prefix owned by another worker: skip the oracle.
pub fn is_probe() -> bool {
    CORE.with(|c| c.borrow().probe)
}
/// The choices made so far in this execution (the replayable schedule).
pub fn choices() -> Vec<u32> {
    CORE.with(|c| {
        let c = c.borrow();
        if let Some(r) = &c.replay {
            let mut v = r.clone();
            v.truncate(c.step);
            while v.len() < c.step {
                v.push(0);
            }
            v
        } else {
            c.stack.iter().take(c.step).map(|f| f.idx).collect()
        }
    })
}
pub fn preemptions_now() -> u32 {
    CORE.with(|c| c.borrow().pre_now)
}
/// Monotone per-execution counter: number of scheduler decisions so far.
pub fn tick() -> u64 {
    CORE.with(|c| c.borrow().tick)
}
/// Never run the given task inside the window (models an arbitrarily slow background thread).
pub fn freeze(task: usize) {
    CORE.with(|c| {
        let mut c = c.borrow_mut();
        if !c.frozen.contains(&task) {
            c.frozen.push(task);
        }
    });
}
pub fn unfreeze_all() {
    CORE.with(|c| c.borrow_mut().frozen.clear());
}
/// True if at some point only frozen tasks were runnable (they were then released).
pub fn starved() -> bool {
    CORE.with(|c| c.borrow().starved)
}
/// Install a callback evaluated at every scheduling point inside the window. It must only use
/// `peek`-style accessors (no scheduling points, no blocking).
pub fn set_monitor(m: Box<dyn FnMut()>) {
    MONITOR.with(|c| *c.borrow_mut() = Some(m));
}
pub fn clear_monitor() {
    MONITOR.with(|c| *c.borrow_mut() = None);
}

fn run_monitor() {
    let m = MONITOR.with(|c| c.borrow_mut().take());
    if let Some(mut m) = m {
        m();
        MONITOR.with(|c| {
            let mut c = c.borrow_mut();
            if c.is_none() {
                *c = Some(m);
            }
        });
    }
}

pub struct Pb;

impl Scheduler for Pb {
    fn new_execution(&mut self) -> Option<Schedule> {
        clear_monitor();
        let go = CORE.with(|c| c.borrow_mut().begin_execution());
        if go {
            Some(Schedule::new(0))
        } else {
            None
        }
    }

    fn next_task(&mut self, runnable: &[&Task], current: Option<TaskId>, is_yielding: bool) -> Option<TaskId> {
        let mut ids: Vec<usize> = runnable.iter().map(|t| usize::from(t.id())).collect();
        ids.sort_unstable();
        let branching = CORE.with(|c| {
            let mut c = c.borrow_mut();
            c.tick += 1;
            if !c.frozen.is_empty() {
                let filtered: Vec<usize> = ids.iter().copied().filter(|i| !c.frozen.contains(i)).collect();
                if filtered.is_empty() {
                    c.starved = true;
                    c.frozen.clear();
                } else {
                    ids = filtered;
                }
            }
            c.branching
        });
        let cur = current.map(usize::from);
        let cur_in = cur.map(|x| ids.contains(&x)).unwrap_or(false);
        let cur_runnable = cur_in && !is_yielding;
        if cur_runnable {
            let x = cur.unwrap();
            ids.retain(|&i| i != x);
            ids.insert(0, x);
        } else if is_yielding && cur_in && ids.len() > 1 {
            let x = cur.unwrap();
            ids.retain(|&i| i != x);
            ids.push(x);
        }
        if branching {
            run_monitor();
        }
        let mut sig: u64 = 0xcbf29ce484222325;
        for i in &ids {
            sig = (sig ^ (*i as u64 + 1)).wrapping_mul(0x100000001b3);
        }
        let idx = CORE.with(|c| c.borrow_mut().decide(ids.len(), cur_runnable, false, sig));
        Some(TaskId::from(ids[idx]))
    }

    fn next_u64(&mut self) -> u64 {
        0
    }
}

#[derive(Clone, Debug, Default)]
pub struct Stats {
    pub executions: u64,
    pub probes: u64,
    pub nodes: u64,
    pub steps_window: u64,
    pub steps_all: u64,
    pub max_depth: usize,
    pub max_preemptions_used: u32,
    pub capped: bool,
    pub failures: Vec<Failure>,
    pub wall_s: f64,
}

impl Stats {
    pub fn merge(&mut self, o: &Stats) {
        self.executions += o.executions;
        self.probes += o.probes;
        self.nodes += o.nodes;
        self.steps_window += o.steps_window;
        self.steps_all += o.steps_all;
        self.max_depth = self.max_depth.max(o.max_depth);
        self.max_preemptions_used = self.max_preemptions_used.max(o.max_preemptions_used);
        self.capped |= o.capped;
        self.failures.extend(o.failures.iter().cloned());
        self.wall_s = self.wall_s.max(o.wall_s);
    }
}

/// An execution that did not run to completion: deadlock or a panic on some task.
#[derive(Clone, Debug)]
pub struct Failure {
    pub kind: &'static str, // "deadlock" | "panic"
    pub message: String,
    pub choices: Vec<u32>,
}

#[derive(Clone)]
pub struct ExploreCfg {
    pub bound: u32,
    pub workers: usize,
    pub split_depth: usize,
    pub max_executions: Option<u64>,
    pub time_cap: Option<Duration>,
    pub max_failures: usize,
    pub stop_flag: Option<Arc<AtomicBool>>,
}

impl Default for ExploreCfg {
    fn default() -> Self {
        ExploreCfg { bound: 2, workers: 1, split_depth: 6, max_executions: None, time_cap: None, max_failures: 8, stop_flag: None }
    }
}

fn shuttle_config() -> shuttle::Config {
    let mut cfg = shuttle::Config::new();
    cfg.failure_persistence = shuttle::FailurePersistence::None;
    cfg.silence_warnings = true;
    cfg.max_steps = shuttle::MaxSteps::FailAfter(200_000);
    cfg.stack_size = 0x40000;
    cfg
}

static PANIC_HOOK_ONCE: std::sync::Once = std::sync::Once::new();
thread_local! { pub static LAST_PANIC: RefCell<Option<String>> = RefCell::new(None); }

/// shuttle installs its own (noisy) panic hook on the first run; install ours after that so it wins.
pub fn install_quiet_panic_hook() {
    PANIC_HOOK_ONCE.call_once(|| {
        // trigger shuttle's one-time hook installation with a trivial run
        let r = shuttle::Runner::new(shuttle::scheduler::DfsScheduler::new(Some(1), false), shuttle_config());
        r.run(|| {});
        std::panic::set_hook(Box::new(|info| {
            let loc = info.location().map(|l| format!("{}:{}", l.file(), l.line())).unwrap_or_default();
            let msg = if let Some(s) = info.payload().downcast_ref::<&str>() {
                s.to_string()
            } else if let Some(s) = info.payload().downcast_ref::<String>() {
                s.clone()
            } else {
                "?".to_string()
            };
            // which command the worker had dequeued and not yet answered when the panic happened (narrows the
            // signature: the same arithmetic message in the same file during another command is another finding)
            let during = super::world::try_with(|w| {
                let mut cur: Option<String> = None;
                for e in w.events.iter() {
                    if e.kind == "worker_dequeued" {
                        cur = Some(e.text.clone());
                    } else if e.kind == "worker_acked" {
                        cur = None;
                    }
                }
                cur
            })
            .flatten();
            let during = during.map(|d| format!(" [during {}]", d)).unwrap_or_default();
            LAST_PANIC.with(|p| *p.borrow_mut() = Some(format!("{}{} @ {}", msg.lines().next().unwrap_or(""), during, loc)));
            if std::env::var("MC_VERBOSE_PANICS").is_ok() {
                eprintln!("panic: {} @ {}", msg, loc);
            }
        }));
    });
}

fn run_worker(cfg: &ExploreCfg, part: Option<Partition>, body: Arc<dyn Fn() + Send + Sync>) -> Stats {
    install_quiet_panic_hook();
    let t0 = Instant::now();
    CORE.with(|c| {
        *c.borrow_mut() = Core {
            bound: cfg.bound,
            part,
            max_executions: cfg.max_executions,
            deadline: cfg.time_cap.map(|d| t0 + d),
            stop_flag: cfg.stop_flag.clone(),
            ..Default::default()
        };
    });
    let mut failures: Vec<Failure> = Vec::new();
    loop {
        let b = body.clone();
        LAST_PANIC.with(|p| *p.borrow_mut() = None);
        let r = std::panic::catch_unwind(std::panic::AssertUnwindSafe(|| {
            shuttle::Runner::new(Pb, shuttle_config()).run(move || b());
        }));
        match r {
            Ok(()) => break,
            Err(e) => {
                let msg = e
                    .downcast_ref::<String>()
                    .cloned()
                    .or_else(|| e.downcast_ref::<&str>().map(|s| s.to_string()))
                    .unwrap_or_else(|| "?".into());
                let first = msg.lines().next().unwrap_or("").to_string();
                let kind = if first.starts_with("deadlock!") { "deadlock" } else { "panic" };
                let mut detail = if kind == "panic" { LAST_PANIC.with(|p| p.borrow().clone()).unwrap_or(first.clone()) } else { first.clone() };
                if kind == "deadlock" {
                    if let Some((tag, d)) = super::world::waiting_for() {
                        detail = format!("deadlock[{}] {} | {}", tag, d, first);
                    }
                }
                let (choices, probe) = CORE.with(|c| {
                    let c = c.borrow();
                    (c.stack.iter().take(c.step.max(0)).map(|f| f.idx).collect::<Vec<_>>(), c.probe)
                });
                super::world::abandon();
                clear_monitor();
                if !probe {
                    failures.push(Failure { kind, message: detail, choices });
                }
                let stop = CORE.with(|c| c.borrow().done) || failures.len() >= cfg.max_failures;
                if stop {
                    if failures.len() >= cfg.max_failures {
                        CORE.with(|c| c.borrow_mut().capped = true);
                    }
                    break;
                }
            }
        }
    }
    CORE.with(|c| {
        let c = c.borrow();
        Stats {
            executions: c.executions,
            probes: c.probes,
            nodes: c.nodes,
            steps_window: c.steps_window,
            steps_all: c.steps_all,
            max_depth: c.max_depth,
            max_preemptions_used: c.max_preemptions_used,
            capped: c.capped,
            failures,
            wall_s: t0.elapsed().as_secs_f64(),
        }
    })
}

/// Exhaustively explore `body` up to `cfg.bound` preemptions, on `cfg.workers` OS threads.
pub fn explore(cfg: &ExploreCfg, body: Arc<dyn Fn() + Send + Sync>) -> Stats {
    if cfg.workers <= 1 {
        return run_worker(cfg, None, body);
    }
    let total = Arc::new(Mutex::new(Stats::default()));
    let mut hs = Vec::new();
    for w in 0..cfg.workers {
        let cfg = cfg.clone();
        let body = body.clone();
        let total = total.clone();
        hs.push(
            std::thread::Builder::new()
                .stack_size(8 << 20)
                .spawn(move || {
                    let part = Partition { depth: cfg.split_depth, worker: w, workers: cfg.workers };
                    let st = run_worker(&cfg, Some(part), body);
                    let mut t = total.lock().unwrap();
                    // nodes above the split depth are visited by every worker: count them once
                    t.merge(&st);
                })
                .unwrap(),
        );
    }
    for h in hs {
        if h.join().is_err() {
            eprintln!("MACHINERY-ERROR explorer worker thread panicked");
            std::process::exit(2);
        }
    }
    let t = total.lock().unwrap().clone();
    t
}

/// Run exactly one execution following `choices`. Returns Err on divergence or failure.
pub fn replay(choices: Vec<u32>, body: Arc<dyn Fn() + Send + Sync>) -> Result<(), Failure> {
    install_quiet_panic_hook();
    CORE.with(|c| {
        *c.borrow_mut() = Core { bound: u32::MAX, replay: Some(choices.clone()), ..Default::default() };
    });
    LAST_PANIC.with(|p| *p.borrow_mut() = None);
    let b = body.clone();
    let r = std::panic::catch_unwind(std::panic::AssertUnwindSafe(|| {
        shuttle::Runner::new(Pb, shuttle_config()).run(move || b());
    }));
    let div = CORE.with(|c| c.borrow().replay_diverged.clone());
    if let Some(d) = div {
        return Err(Failure { kind: "divergence", message: d, choices });
    }
    match r {
        Ok(()) => Ok(()),
        Err(e) => {
            let msg = e
                .downcast_ref::<String>()
                .cloned()
                .or_else(|| e.downcast_ref::<&str>().map(|s| s.to_string()))
                .unwrap_or_else(|| "?".into());
            let first = msg.lines().next().unwrap_or("").to_string();
            let kind = if first.starts_with("deadlock!") { "deadlock" } else { "panic" };
            let mut detail = if kind == "panic" { LAST_PANIC.with(|p| p.borrow().clone()).unwrap_or(first.clone()) } else { first.clone() };
            if kind == "deadlock" {
                if let Some((tag, d)) = super::world::waiting_for() {
                    detail = format!("deadlock[{}] {} | {}", tag, d, first);
                }
            }
            super::world::abandon();
            clear_monitor();
            Err(Failure { kind, message: detail, choices })
        }
    }
}

pub static GLOBAL_EXECUTIONS: AtomicU64 = AtomicU64::new(0);

/// Debug aid: option counts of the frames of the current execution.
pub fn frame_widths() -> Vec<u32> {
    CORE.with(|c| c.borrow().stack.iter().map(|f| f.n).collect())
}

// ------------------------------------------------------------------------------------------------
// batch mode: run `n` independent executions under the default schedule (no branching), used by
// the `seq` and `exh` engines; failures are caught per item.
// ------------------------------------------------------------------------------------------------
thread_local! {
    static BATCH_NEXT: std::cell::Cell<usize> = std::cell::Cell::new(0);
    static BATCH_END: std::cell::Cell<usize> = std::cell::Cell::new(0);
}

pub struct BatchSched;
impl Scheduler for BatchSched {
    fn new_execution(&mut self) -> Option<Schedule> {
        clear_monitor();
        let go = BATCH_NEXT.with(|n| n.get()) < BATCH_END.with(|e| e.get());
        if go {
            CORE.with(|c| {
                let mut c = c.borrow_mut();
                c.branching = false;
                c.frozen.clear();
                c.starved = false;
                c.tick = 0;
                c.step = 0;
                c.stack.clear();
                c.replay = None;
                c.probe = false;
            });
            Some(Schedule::new(0))
        } else {
            None
        }
    }
    fn next_task(&mut self, runnable: &[&Task], current: Option<TaskId>, is_yielding: bool) -> Option<TaskId> {
        Pb.next_task(runnable, current, is_yielding)
    }
    fn next_u64(&mut self) -> u64 {
        0
    }
}

/// Runs `body(i)` for every `i` in `range`, each in its own execution. Returns the failures
/// (item index, kind, message) of executions that did not complete.
pub fn run_batch(range: std::ops::Range<usize>, body: Arc<dyn Fn(usize) + Send + Sync>) -> Vec<(usize, &'static str, String)> {
    install_quiet_panic_hook();
    CORE.with(|c| *c.borrow_mut() = Core::default());
    BATCH_NEXT.with(|n| n.set(range.start));
    BATCH_END.with(|e| e.set(range.end));
    let mut failures = Vec::new();
    loop {
        if BATCH_NEXT.with(|n| n.get()) >= BATCH_END.with(|e| e.get()) {
            break;
        }
        let b = body.clone();
        LAST_PANIC.with(|p| *p.borrow_mut() = None);
        let r = std::panic::catch_unwind(std::panic::AssertUnwindSafe(|| {
            shuttle::Runner::new(BatchSched, shuttle_config()).run(move || {
                let i = BATCH_NEXT.with(|n| {
                    let i = n.get();
                    n.set(i + 1);
                    i
                });
                b(i);
            });
        }));
        if let Err(e) = r {
            let msg = e
                .downcast_ref::<String>()
                .cloned()
                .or_else(|| e.downcast_ref::<&str>().map(|s| s.to_string()))
                .unwrap_or_else(|| "?".into());
            let first = msg.lines().next().unwrap_or("").to_string();
            let kind = if first.starts_with("deadlock!") { "deadlock" } else { "panic" };
            let mut detail = if kind == "panic" { LAST_PANIC.with(|p| p.borrow().clone()).unwrap_or(first.clone()) } else { first.clone() };
            if kind == "deadlock" {
                if let Some((tag, d)) = super::world::waiting_for() {
                    detail = format!("deadlock[{}] {} | {}", tag, d, first);
                }
            }
            super::world::abandon();
            clear_monitor();
            let i = BATCH_NEXT.with(|n| n.get()).saturating_sub(1);
            failures.push((i, kind, detail));
        }
    }
    failures
}
