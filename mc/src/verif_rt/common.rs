//! Types shared by the `sched` and `native` backends.

#[derive(Clone, Debug)]
pub struct Event {
    pub kind: &'static str,
    pub text: String,
    pub data: Vec<i64>,
    pub task: usize,
    pub seq: u64,
}

#[derive(Clone, Copy, Debug)]
pub struct WorldCfg {
    /// `parking_lot::RwLock` look-alike: readers queue behind a waiting writer (parking_lot's policy)
    /// instead of the plain "no writer holds it" rule. Only matters for blocking / deadlocks.
    pub fair_rwlocks: bool,
    /// Atomics created while the cache is being constructed (`is_shutting_down`, `keep_running`)
    /// are scheduling points only if the scenario can write them (i.e. contains `shutdown`).
    pub lifecycle_atomics_are_points: bool,
    /// The id generator's atomic is a scheduling point (default on: one extra point per queued put).
    pub id_atomics_are_points: bool,
    /// The ten statistics counters are scheduling points (default off: they order nothing else; on in the
    /// scenarios that check the counters after concurrent operations).
    pub stats_atomics_are_points: bool,
    /// The harness clock is a scheduling point (set when something advances it inside the window).
    pub clock_is_point: bool,
    /// `Pool::add` buffer index: explorer data choice (true) or always 0.
    pub pool_index_is_choice: bool,
    /// `DashMap::iter` order of each shard: explorer data choice (true) or insertion order.
    pub iter_order_is_choice: bool,
    /// All keys of every DashMap hash to shard 0 (maximal lock sharing).
    pub dash_single_shard: bool,
    /// Capacity to use for the access-count channel (the code's constant is 10) so that saturation is reachable.
    pub access_channel_cap: Option<usize>,
    /// Seeds handed to `FrequencyCounter::seeds` (cyclically).
    pub sketch_seeds: [u64; 4],
}

impl Default for WorldCfg {
    fn default() -> Self {
        WorldCfg {
            fair_rwlocks: false,
            lifecycle_atomics_are_points: false,
            id_atomics_are_points: true,
            stats_atomics_are_points: false,
            clock_is_point: false,
            pool_index_is_choice: false,
            iter_order_is_choice: false,
            dash_single_shard: false,
            access_channel_cap: None,
            sketch_seeds: [0x9E37_79B9_7F4A_7C15, 0xC2B2_AE3D_27D4_EB4F, 0x1656_67B1_9E37_79F9, 0x27D4_EB2F_1656_67C5],
        }
    }
}

