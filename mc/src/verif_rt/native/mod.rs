//! `native` backend: the import seam resolves to the REAL parking_lot / dashmap / crossbeam-channel /
//! std::thread / std atomics. Only the sweeper's timer (manual ticks), the two RNG uses and the bloom
//! filter's seed are replaced, and DashMap gets a fixed hasher so that runs are repeatable.
//! Used for the conformance replay that binds the `sched` shims to the real crates: the same sequential
//! histories must produce the same API results and the same canonical states on both backends.

pub mod sync {
    pub mod atomic {
        pub use std::sync::atomic::*;
        pub type IdAtomicU64 = std::sync::atomic::AtomicU64;
        pub type StatsAtomicU64 = std::sync::atomic::AtomicU64;
    }
    pub mod parking_lot {
        pub use ::parking_lot::*;
    }
    pub mod hashbrown {
        pub use ::hashbrown::*;
    }
    pub mod thread {
        pub use std::thread::*;
    }

    pub mod dashmap {
        use std::collections::hash_map::DefaultHasher;
        use std::hash::{BuildHasherDefault, Hash};
        pub type Fixed = BuildHasherDefault<DefaultHasher>;
        pub mod mapref {
            pub mod one {
                pub type Ref<'a, K, V> = ::dashmap::mapref::one::Ref<'a, K, V, super::super::Fixed>;
                pub type RefMut<'a, K, V> = ::dashmap::mapref::one::RefMut<'a, K, V, super::super::Fixed>;
            }
            pub mod multiple {
                pub type RefMulti<'a, K, V> = ::dashmap::mapref::multiple::RefMulti<'a, K, V, super::super::Fixed>;
            }
        }
        /// The real map with a fixed hasher (the code under test only uses this constructor).
        pub struct DashMap<K, V>(::dashmap::DashMap<K, V, Fixed>);
        impl<K: Eq + Hash, V> DashMap<K, V> {
            pub fn with_capacity_and_shard_amount(capacity: usize, shards: usize) -> Self {
                DashMap(::dashmap::DashMap::with_capacity_and_hasher_and_shard_amount(capacity, Fixed::default(), shards))
            }
        }
        impl<K, V> std::ops::Deref for DashMap<K, V> {
            type Target = ::dashmap::DashMap<K, V, Fixed>;
            fn deref(&self) -> &Self::Target {
                &self.0
            }
        }
    }

    pub mod crossbeam_channel {
        pub use ::crossbeam_channel::*;
        /// The sweeper's timer: a channel whose sender the harness keeps (manual ticks).
        pub fn tick(_d: std::time::Duration) -> Receiver<std::time::Instant> {
            let (s, r) = ::crossbeam_channel::bounded(1);
            crate::verif_rt::native::world::with(|w| w.tick_senders.push(s));
            r
        }
    }

    pub mod rand {
        use crate::verif_rt::native::world;
        pub struct ThreadRng;
        pub fn thread_rng() -> ThreadRng {
            ThreadRng
        }
        pub trait FromRng {
            fn from_u64(x: u64) -> Self;
        }
        impl FromRng for u64 {
            fn from_u64(x: u64) -> u64 {
                x
            }
        }
        pub trait Rng {
            fn gen_range(&mut self, r: std::ops::Range<usize>) -> usize {
                r.start
            }
            fn gen<T: FromRng>(&mut self) -> T {
                let x = world::try_with(|w| {
                    let s = w.cfg.sketch_seeds[w.seed_ctr % 4];
                    w.seed_ctr += 1;
                    s
                })
                .unwrap_or(0x9E37_79B9_7F4A_7C15);
                T::from_u64(x)
            }
        }
        impl Rng for ThreadRng {}
    }

    pub mod bloomfilter {
        use std::hash::Hash;
        const SEED: [u8; 32] = [
            0x5a, 0x17, 0x3c, 0x99, 0x01, 0xfe, 0x42, 0x24, 0x77, 0x10, 0xab, 0xcd, 0xef, 0x12, 0x34, 0x56, 0x78, 0x9a, 0xbc, 0xde, 0xf0, 0x0f, 0x1e, 0x2d, 0x3c,
            0x4b, 0x5a, 0x69, 0x78, 0x87, 0x96, 0xa5,
        ];
        pub struct Bloom<T: ?Sized> {
            inner: ::bloomfilter::Bloom<T>,
        }
        impl<T: ?Sized + Hash> Bloom<T> {
            pub fn new_for_fp_rate(items_count: usize, fp_p: f64) -> Self {
                Bloom { inner: ::bloomfilter::Bloom::new_for_fp_rate_with_seed(items_count, fp_p, &SEED) }
            }
            pub fn set(&mut self, item: &T) {
                self.inner.set(item)
            }
            pub fn check(&self, item: &T) -> bool {
                self.inner.check(item)
            }
            pub fn clear(&mut self) {
                self.inner.clear()
            }
        }
    }

    pub fn peek_atomic_bool(a: &atomic::AtomicBool) -> bool {
        a.load(std::sync::atomic::Ordering::SeqCst)
    }
    pub fn peek_rwlock_copy<T: Copy>(l: &parking_lot::RwLock<T>) -> Option<T> {
        l.try_read().map(|g| *g)
    }
}

pub mod world {
    //! Per-execution state; process-global here because the cache's background threads are real OS
    //! threads (one cache at a time per process; parallelism comes from running several processes).
    pub use crate::verif_rt::common::{Event, WorldCfg};
    use std::collections::HashMap;
    use std::sync::{Condvar, Mutex};
    use std::time::{Duration, Instant};

    pub struct World {
        pub cfg: WorldCfg,
        pub events: Vec<Event>,
        pub counts: HashMap<&'static str, u64>,
        pub tick_senders: Vec<::crossbeam_channel::Sender<Instant>>,
        pub seed_ctr: usize,
        pub seq: u64,
        pub waiting_for: Option<(String, String)>,
    }

    static WORLD: Mutex<Option<World>> = Mutex::new(None);
    static CHANGED: Condvar = Condvar::new();
    /// How long a quiescence wait may take before the worker is declared dead.
    pub const WATCHDOG: Duration = Duration::from_secs(30);

    pub fn reset(cfg: WorldCfg) {
        *WORLD.lock().unwrap_or_else(|e| e.into_inner()) =
            Some(World { cfg, events: Vec::new(), counts: HashMap::new(), tick_senders: Vec::new(), seed_ctr: 0, seq: 0, waiting_for: None });
    }
    pub fn finish() {
        let w = WORLD.lock().unwrap_or_else(|e| e.into_inner()).take();
        drop(w);
    }
    pub fn abandon() {
        finish();
    }
    pub fn with<R>(f: impl FnOnce(&mut World) -> R) -> R {
        let mut g = WORLD.lock().unwrap_or_else(|e| e.into_inner());
        f(g.as_mut().expect("verif_rt::world used outside an execution"))
    }
    pub fn try_with<R>(f: impl FnOnce(&mut World) -> R) -> Option<R> {
        let mut g = WORLD.lock().unwrap_or_else(|e| e.into_inner());
        g.as_mut().map(f)
    }
    pub fn cfg() -> WorldCfg {
        try_with(|w| w.cfg).unwrap_or_default()
    }
    pub fn stamp() -> u64 {
        with(|w| {
            w.seq += 1;
            w.seq
        })
    }
    pub fn record_event(kind: &'static str, text: &str, data: &[i64]) {
        let _ = try_with(|w| {
            w.seq += 1;
            let seq = w.seq;
            w.events.push(Event { kind, text: text.to_string(), data: data.to_vec(), task: usize::MAX, seq });
            *w.counts.entry(kind).or_insert(0) += 1;
        });
        CHANGED.notify_all();
    }
    pub fn count(kind: &'static str) -> u64 {
        with(|w| *w.counts.get(kind).unwrap_or(&0))
    }
    pub fn events() -> Vec<Event> {
        with(|w| w.events.clone())
    }
    pub fn wait_until(pred: impl Fn(&World) -> bool) {
        wait_until_labelled(pred, "condition", |_| String::new())
    }
    /// Blocks until `pred` holds; panics with a "deadlock[...]" message when the watchdog expires
    /// (a background thread died or stopped answering).
    pub fn wait_until_labelled(pred: impl Fn(&World) -> bool, tag: &str, describe: impl Fn(&World) -> String) {
        let start = Instant::now();
        let mut g = WORLD.lock().unwrap_or_else(|e| e.into_inner());
        loop {
            let w = g.as_mut().expect("verif_rt::world used outside an execution");
            if pred(w) {
                return;
            }
            if start.elapsed() > WATCHDOG {
                let d = describe(w);
                drop(g);
                panic!("deadlock[{}] {} (watchdog {:?} expired)", tag, d, WATCHDOG);
            }
            let (ng, _) = CHANGED.wait_timeout(g, Duration::from_millis(20)).unwrap_or_else(|e| e.into_inner());
            g = ng;
        }
    }
    pub fn waiting_for() -> Option<(String, String)> {
        None
    }
    pub fn wait_event(kind: &'static str, at_least: u64) {
        wait_until_labelled(|w| *w.counts.get(kind).unwrap_or(&0) >= at_least, kind, |w| format!("waiting for event {} #{} (seen {})", kind, at_least, w.counts.get(kind).unwrap_or(&0)));
    }
    pub fn wait_commands_acked() {
        let counts = |w: &World| {
            let sent = *w.counts.get("command_sent").unwrap_or(&0);
            let acked = *w.counts.get("worker_acked").unwrap_or(&0);
            let failed = *w.counts.get("command_send_failed").unwrap_or(&0);
            (sent, acked, failed)
        };
        wait_until_labelled(
            |w| {
                let (s, a, f) = counts(w);
                a + f >= s
            },
            "command-acknowledgements",
            |w| {
                let (s, a, f) = counts(w);
                format!("{} commands were queued but only {} acknowledged ({} failed sends)", s, a, f)
            },
        );
    }
    pub fn take_tick_senders() -> Vec<::crossbeam_channel::Sender<Instant>> {
        with(|w| std::mem::take(&mut w.tick_senders))
    }
    pub fn constructing<R>(f: impl FnOnce() -> R) -> (R, Vec<usize>) {
        (f(), vec![])
    }
    pub fn choice(_n: usize) -> usize {
        0
    }
    pub fn sched_point() {}
}
