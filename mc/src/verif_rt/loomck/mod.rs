//! `loomck` backend: the real crates as in `native`, except that the atomics and `parking_lot::Mutex` are
//! loom's, so that the acknowledgement's flag / status mutex / waker mutex are explored under the C11 memory
//! model (a weakened ordering on the `done` flag is invisible to the sequentially consistent `sched` build).
//! Only the acknowledgement micro-harness (harness/loom_c12.rs) runs in this build.

pub mod sync {
    pub use crate::verif_rt::native::sync::{bloomfilter, crossbeam_channel, dashmap, hashbrown, rand, thread};

    pub mod atomic {
        pub use loom::sync::atomic::*;
        pub type IdAtomicU64 = loom::sync::atomic::AtomicU64;
        pub type StatsAtomicU64 = loom::sync::atomic::AtomicU64;
    }

    pub mod parking_lot {
        pub use ::parking_lot::{RwLock, RwLockReadGuard, RwLockWriteGuard};
        /// parking_lot's API (no poisoning) on loom's mutex.
        pub struct Mutex<T>(loom::sync::Mutex<T>);
        impl<T> Mutex<T> {
            pub fn new(t: T) -> Self {
                Mutex(loom::sync::Mutex::new(t))
            }
            pub fn lock(&self) -> loom::sync::MutexGuard<'_, T> {
                self.0.lock().unwrap_or_else(|e| e.into_inner())
            }
        }
    }

    pub fn peek_atomic_bool(a: &atomic::AtomicBool) -> bool {
        a.load(std::sync::atomic::Ordering::SeqCst)
    }
    pub fn peek_rwlock_copy<T: Copy>(l: &parking_lot::RwLock<T>) -> Option<T> {
        l.try_read().map(|g| *g)
    }
}
