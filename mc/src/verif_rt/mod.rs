//! Runtime that the `cfg(cached_verif)` hooks in /repo call into.
//!
//! `sync`  - what the import seam resolves to: look-alikes of parking_lot / dashmap / crossbeam-channel /
//!           std::thread / atomics / hashbrown / rand / bloomfilter. Feature `sched`: built on shuttle's
//!           execution engine, every synchronisation operation is a scheduling point of a controlled
//!           scheduler. Feature `native`: the real crates, only timer / RNG / bloom seeds replaced.
//! `hook`  - event hooks (`sweep_done`, `batch_applied`, `command_sent`, ...).
//! `peek`  - non-blocking, non-scheduling reads used by the read-only accessors.
//! `world` - per-execution state owned by the harness (event log, manual tick senders, seeds, choices).

pub mod common;
#[cfg(feature = "sched")]
pub mod sched;
#[cfg(feature = "sched")]
pub use sched::sync;
#[cfg(feature = "sched")]
pub use sched::world;
#[cfg(feature = "sched")]
pub use sched::explore;

#[cfg(any(feature = "native", feature = "loomck"))]
pub mod native;
#[cfg(feature = "native")]
pub use native::sync;
#[cfg(any(feature = "native", feature = "loomck"))]
pub use native::world;
#[cfg(feature = "loomck")]
pub mod loomck;
#[cfg(feature = "loomck")]
pub use loomck::sync;

#[cfg(any(all(feature = "sched", feature = "native"), all(feature = "sched", feature = "loomck"), all(feature = "native", feature = "loomck")))]
compile_error!("features `sched`, `native` and `loomck` are mutually exclusive");

pub mod hook {
    //! Event hooks called from the code under test (one added line each, see MANIFEST.hooks).
    use super::world;

    /// Append an event to the per-execution log and wake harness tasks waiting for it.
    /// Never a scheduling point.
    pub fn event(kind: &'static str, text: &str, data: &[i64]) {
        world::record_event(kind, text, data);
    }

    /// Flatten what `create_space` knows when it examines a victim:
    /// [incoming id, incoming weight, incoming estimate, space available, victim id, victim weight,
    ///  victim estimate, sample size, (id, weight, estimate) * sample size]
    pub fn victim_record(
        incoming_id: u64,
        incoming_weight: i64,
        incoming_estimate: u8,
        space_available: i64,
        victim: (u64, i64, u8),
        sample: &[(u64, i64, u8)],
    ) -> Vec<i64> {
        let mut v = vec![
            incoming_id as i64,
            incoming_weight,
            incoming_estimate as i64,
            space_available,
            victim.0 as i64,
            victim.1,
            victim.2 as i64,
            sample.len() as i64,
        ];
        for s in sample {
            v.push(s.0 as i64);
            v.push(s.1);
            v.push(s.2 as i64);
        }
        v
    }
}

pub mod peek {
    //! Reads that never block and never are scheduling points (monitors run inside the scheduler).
    use super::sync;

    pub fn atomic_bool(a: &sync::atomic::AtomicBool) -> bool {
        sync::peek_atomic_bool(a)
    }

    /// The protected value as a reader could see it right now; `None` while write-locked.
    pub fn rwlock_copy<T: Copy>(l: &sync::parking_lot::RwLock<T>) -> Option<T> {
        sync::peek_rwlock_copy(l)
    }
}
