pub mod backend;
pub mod kit;
pub mod report;
#[cfg(feature = "sched")]
pub mod ilv;
#[cfg(feature = "sched")]
pub mod seq;
