//! Engine `seq`: explicit-state breadth-first search over operation sequences on the real cache.
//!
//! A step is one API call followed by quiescence (every queued command answered, every tick swept,
//! every delivered batch applied). A child history `h.a` is explored by re-executing `h` on a fresh
//! cache and then applying `a`; canonical states deduplicate the frontier; the oracle is evaluated on
//! every executed transition with the whole path (calls + state snapshots) available as ghost state.

use super::kit::*;
use super::report::{Collector, ScenarioResult, Violation};
use crate::cache::command::CommandStatus;
use crate::props::{Ctx, ReplayOutcome, Scenario};
use crate::verif_rt::explore;
use crate::verif_rt::world::{self, WorldCfg};
use serde_json::{json, Value};
use std::collections::HashSet;
use std::sync::atomic::Ordering::SeqCst;
use std::sync::{Arc, Mutex};

pub use super::ilv::Finding;
pub use super::seqcore::*;

pub type SeqOracle = Arc<dyn Fn(&SeqRun, &mut Vec<Finding>) + Send + Sync>;

#[derive(Clone)]
pub struct SeqSpec {
    pub name: String,
    pub setup: Setup,
    pub world: WorldCfg,
    /// fixed prologue applied before the explored part (not deduplicated, oracle evaluated on it too)
    pub prefix: Vec<Op>,
    pub alphabet: Vec<Op>,
    pub depth: usize,
    /// optional filter: may `a` follow history `h`, given the keys the store holds after `h`? (keeps the alphabet's preconditions, e.g. total demand fits)
    pub allow: Option<Arc<dyn Fn(&[Op], &[K], &Op) -> bool + Send + Sync>>,
    pub oracle: SeqOracle,
    /// keys whose sketch estimates are part of the canonical state
    pub keys: Vec<K>,
    /// include the access-counting pipeline (buffers, sketch) in the canonical state
    pub canon_sketch: bool,
    /// specification-level ghost state the oracle derives from the history; it is part of the deduplication key,
    /// so two histories are only merged when the implementation state AND the expectations about it agree
    pub ghost_key: Option<Arc<dyn Fn(&SeqRun) -> String + Send + Sync>>,
    pub max_states: usize,
    pub time_cap_s: f64,
}

fn to_violation(f: Finding, run: &SeqRun) -> Violation {
    Violation {
        clause: f.clause,
        signature: f.signature,
        detail: format!("{} | history: {:?} | before: {} | after: {}", f.detail, run.history(), run.before().brief(), run.after().brief()),
        replay: json!({"kind": "history", "ops": run.ops.iter().map(op_to_json).collect::<Vec<_>>(), "history": run.history()}),
        cost: run.ops.len(),
    }
}

/// Conformance traces (MC_DUMP_DIR set): every executed history up to MC_DUMP_DEPTH with what this backend
/// observed, to be replayed by the `native` backend on the real crates.
static DUMP: Mutex<Vec<String>> = Mutex::new(Vec::new());

fn dump_depth() -> Option<usize> {
    std::env::var("MC_DUMP_DIR").ok()?;
    Some(std::env::var("MC_DUMP_DEPTH").ok().and_then(|s| s.parse().ok()).unwrap_or(4))
}

fn flush_dump(name: &str) -> u64 {
    let lines: Vec<String> = std::mem::take(&mut *DUMP.lock().unwrap());
    let n = lines.len() as u64;
    if let Ok(dir) = std::env::var("MC_DUMP_DIR") {
        let _ = std::fs::create_dir_all(&dir);
        let file: String = name.chars().map(|c| if c.is_ascii_alphanumeric() { c } else { '_' }).collect();
        let _ = std::fs::write(format!("{}/{}.jsonl", dir, file), lines.join("\n") + "\n");
    }
    n
}

struct ItemOut {
    canon: String,
    present: Vec<K>,
    findings: usize,
    failed: bool,
}

/// Breadth-first search. Parallel over the transitions of one level.
pub fn search(spec: &SeqSpec, workers: usize) -> ScenarioResult {
    let t0 = std::time::Instant::now();
    let col = Collector::new();
    let mut seen: HashSet<String> = HashSet::new();
    let mut frontier: Vec<(Vec<Op>, Vec<K>)> = vec![(vec![], vec![])];
    let mut transitions: u64 = 0;
    let mut states_deep: u64 = 0;
    let mut depth_completed = 0;
    let mut capped: Option<String> = None;
    let mut nondet_prefixes: u64 = 0;
    // the initial state (after the fixed prefix)
    {
        let items = vec![spec.prefix.clone()];
        let outs = run_items(spec, &items, &col, 1, true);
        if let Some(o) = outs.into_iter().next().flatten() {
            frontier[0].1 = o.present.clone();
            seen.insert(o.canon);
        }
    }
    for d in 1..=spec.depth {
        let mut items: Vec<Vec<Op>> = Vec::new();
        for (h, present) in &frontier {
            for a in &spec.alphabet {
                if let Some(f) = &spec.allow {
                    if !f(h, present, a) {
                        continue;
                    }
                }
                let mut ops = spec.prefix.clone();
                ops.extend(h.iter().cloned());
                ops.push(a.clone());
                items.push(ops);
            }
        }
        if items.is_empty() {
            depth_completed = d;
            break;
        }
        // a level is never started if it cannot finish in reasonable time: the cap is reported, the levels below are complete
        let per_s = if transitions > 2000 { (transitions as f64 / t0.elapsed().as_secs_f64().max(0.05)).max(1000.0) } else { 20_000.0 };
        let remaining = (spec.time_cap_s - t0.elapsed().as_secs_f64()).max(0.0);
        if d > 1 && items.len() > 12_000_000 {
            capped = Some(format!("depth {} would need {} transitions (memory guard at 12M per level): stopped after completing depth {}", d, items.len(), d - 1));
            break;
        }
        if d > 1 && items.len() as f64 / per_s > remaining * 1.5 + 2.0 {
            capped = Some(format!("depth {} would need {} transitions (~{:.0}s at the measured rate, {:.0}s left): stopped after completing depth {}", d, items.len(), items.len() as f64 / per_s, remaining, d - 1));
            break;
        }
        let outs = run_items(spec, &items, &col, workers, false);
        transitions += items.len() as u64;
        let mut next: Vec<(Vec<Op>, Vec<K>)> = Vec::new();
        for (ops, out) in items.into_iter().zip(outs.into_iter()) {
            if let Some(o) = out {
                if o.failed {
                    continue;
                }
                if seen.insert(o.canon) {
                    if d >= 2 {
                        states_deep += 1;
                    }
                    next.push((ops[spec.prefix.len()..].to_vec(), o.present.clone()));
                }
            }
        }
        depth_completed = d;
        frontier = next;
        if frontier.is_empty() {
            break;
        }
        if seen.len() > spec.max_states {
            capped = Some(format!("state cap {} reached at depth {}", spec.max_states, d));
            break;
        }
        if t0.elapsed().as_secs_f64() > spec.time_cap_s && d < spec.depth {
            capped = Some(format!("time cap {:.0}s reached after completing depth {} of {}", spec.time_cap_s, d, spec.depth));
            break;
        }
    }
    let _ = nondet_prefixes;
    nondet_prefixes = 0;
    let dumped = flush_dump(&spec.name);
    let g = col.0.lock().unwrap();
    ScenarioResult {
        name: spec.name.clone(),
        engine: "seq",
        params: json!({
            "setup": spec.setup.describe(),
            "prefix": spec.prefix.iter().map(|o| o.short()).collect::<Vec<_>>(),
            "alphabet": spec.alphabet.iter().map(|o| o.short()).collect::<Vec<_>>(),
            "depth": spec.depth,
            "nondeterministic_prefixes": nondet_prefixes,
            "conformance_traces_written": dumped,
        }),
        evaluations: transitions + 1,
        states: seen.len() as u64,
        transitions: transitions.max(1),
        validated: transitions + 1,
        distinct_nontrivial: states_deep,
        distinct_outcomes: g.outcomes.len() as u64,
        outcomes: g.outcomes.clone(),
        bound: None,
        depth: Some(depth_completed),
        exhaustive: capped.is_none(),
        capped,
        samples: g.samples.clone(),
        violations: g.violations.values().cloned().collect(),
        wall_s: t0.elapsed().as_secs_f64(),
        counters: g.counters.clone(),
        suspicious: None,
    }
}

fn run_items(spec: &SeqSpec, items: &[Vec<Op>], col: &Collector, workers: usize, whole_path: bool) -> Vec<Option<ItemOut>> {
    let n = items.len();
    let outs: Arc<Mutex<Vec<Option<ItemOut>>>> = Arc::new(Mutex::new((0..n).map(|_| None).collect()));
    let items = Arc::new(items.to_vec());
    let workers = workers.max(1).min(n.max(1));
    let chunk = (n + workers - 1) / workers;
    let mut hs = Vec::new();
    for w in 0..workers {
        let lo = w * chunk;
        let hi = ((w + 1) * chunk).min(n);
        if lo >= hi {
            continue;
        }
        let spec = spec.clone();
        let items = items.clone();
        let outs = outs.clone();
        let col = col.clone();
        hs.push(
            std::thread::Builder::new()
                .stack_size(8 << 20)
                .spawn(move || {
                    let (spec2, items2, outs2, col2) = (spec.clone(), items.clone(), outs.clone(), col.clone());
                    let body: Arc<dyn Fn(usize) + Send + Sync> = Arc::new(move |i| {
                        let ops = &items2[i];
                        let run = execute(spec2.setup, spec2.world, ops);
                        let mut nf = 0;
                        // evaluate the oracle on the last transition (on every prefix for the fixed prologue / replays)
                        let first = if whole_path { 1 } else { ops.len() };
                        for upto in first..=ops.len() {
                            if upto == 0 {
                                continue;
                            }
                            let sub = SeqRun {
                                setup: run.setup,
                                ops: run.ops[..upto].to_vec(),
                                calls: run.calls[..upto].to_vec(),
                                statuses: run.statuses[..upto].to_vec(),
                                obs: run.obs[..=upto].to_vec(),
                                events_per_step: run.events_per_step[..upto].to_vec(),
                            };
                            let mut findings = Vec::new();
                            (spec2.oracle)(&sub, &mut findings);
                            for c in sub.calls.iter().skip(upto - 1) {
                                if let Res::Panicked(m) = &c.res {
                                    findings.push(Finding::new("caller-panic", caller_panic_signature(c, m), format!("{} panicked on the caller's thread: {}", c.op.short(), m)));
                                }
                            }
                            nf += findings.len();
                            for f in findings {
                                col2.violation(to_violation(f, &sub));
                            }
                        }
                        col2.evaluated();
                        if let Some(d) = dump_depth() {
                            if ops.len() <= d && nf == 0 {
                                DUMP.lock().unwrap().push(trace_line(&run).to_string());
                            }
                        }
                        if !ops.is_empty() {
                            let c = run.calls.last().unwrap();
                            col2.outcome(format!("{}=>{}", c.op.short(), res_short(&c.res)));
                            col2.sample(json!({"history": run.history(), "state": run.after().brief()}), 3);
                        }
                        let mut cn = canon(&run, ops.len(), &spec2.keys, spec2.canon_sketch);
                        if let Some(g) = &spec2.ghost_key {
                            cn.push_str("|G:");
                            cn.push_str(&g(&run));
                        }
                        let present: Vec<K> = run.after_or_initial().store.iter().map(|e| e.0).collect();
                        outs2.lock().unwrap()[i] = Some(ItemOut { canon: cn, present, findings: nf, failed: false });
                    });
                    let failures = explore::run_batch(lo..hi, body);
                    for (i, kind, msg) in failures {
                        let ops = &items[i];
                        let sig = if kind == "deadlock" { format!("deadlock:{}", super::ilv::normalize_deadlock(&msg)) } else { format!("panic:{}", super::ilv::normalize_panic(&msg)) };
                        col.violation(Violation {
                            clause: kind.to_string(),
                            signature: sig,
                            detail: format!("{} while executing history {:?}", msg, ops.iter().map(|o| o.short()).collect::<Vec<_>>()),
                            replay: json!({"kind": "history", "ops": ops.iter().map(op_to_json).collect::<Vec<_>>()}),
                            cost: ops.len(),
                        });
                        outs.lock().unwrap()[i] = Some(ItemOut { canon: String::new(), present: vec![], findings: 1, failed: true });
                    }
                })
                .unwrap(),
        );
    }
    for h in hs {
        if h.join().is_err() {
            eprintln!("MACHINERY-ERROR seq worker thread panicked");
            std::process::exit(2);
        }
    }
    let mut g = outs.lock().unwrap();
    std::mem::take(&mut *g)
}

/// Replay one history twice; the observations must agree; returns the findings along the path.
pub fn replay_history(spec: &SeqSpec, ops: Vec<Op>) -> ReplayOutcome {
    let mut all: Vec<Vec<(String, String, String)>> = Vec::new();
    let mut canons = Vec::new();
    for _ in 0..2 {
        let col = Collector::new();
        let outs = run_items(spec, &[ops.clone()], &col, 1, true);
        let g = col.0.lock().unwrap();
        all.push(g.violations.values().map(|(v, _)| (v.clause.clone(), v.signature.clone(), v.detail.clone())).collect());
        canons.push(outs.into_iter().next().flatten().map(|o| o.canon).unwrap_or_default());
    }
    if canons[0] != canons[1] {
        return Err(format!("the same history produced different states: {} vs {}", canons[0], canons[1]));
    }
    Ok(all.remove(0))
}

pub fn seq_scenario(spec_of: impl Fn(&Ctx) -> SeqSpec + Send + Sync + Clone + 'static, name: &str) -> Scenario {
    let s1 = spec_of.clone();
    let s2 = spec_of;
    Scenario {
        name: name.to_string(),
        run: Box::new(move |ctx| {
            let mut spec = s1(ctx);
            spec.time_cap_s = ctx.scenario_cap_s;
            if !ctx.quick() {
                // the thorough tier goes as deep as its time share allows; a level that cannot finish is not started
                spec.depth += 3;
                spec.max_states = spec.max_states.max(8_000_000);
            }
            search(&spec, ctx.workers)
        }),
        replay: Box::new(move |doc| -> ReplayOutcome {
            let ctx = Ctx { tier: crate::props::Tier::Thorough, seed: 0, workers: 1, budget_s: 0.0, scenario_cap_s: 0.0 };
            let spec = s2(&ctx);
            let ops: Vec<Op> = doc["replay"]["ops"].as_array().ok_or("replay file has no history")?.iter().map(op_from_json).collect::<Result<Vec<_>, _>>()?;
            replay_history(&spec, ops)
        }),
    }
}

