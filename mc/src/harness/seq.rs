//! Engine `seq`: explicit-state breadth-first search over operation sequences on the real cache.
//!
//! A step is one API call followed by quiescence (every queued command answered, every tick swept,
//! every delivered batch applied). A child history `h.a` is explored by re-executing `h` on a fresh
//! cache and then applying `a`; canonical states deduplicate the frontier; the oracle is evaluated on
//! every executed transition with the whole path (calls + state snapshots) available as ghost state.

use super::kit::*;
use super::report::{Collector, ScenarioResult, Violation};
use crate::cache::command::CommandStatus;
use crate::props::{Ctx, ReplayOutcome, Scenario};
use crate::verif_rt::explore;
use crate::verif_rt::world::{self, WorldCfg};
use serde_json::{json, Value};
use std::collections::HashSet;
use std::sync::atomic::Ordering::SeqCst;
use std::sync::{Arc, Mutex};

pub use super::ilv::Finding;

/// Everything observed along one executed history.
pub struct SeqRun {
    pub setup: Setup,
    pub ops: Vec<Op>,
    pub calls: Vec<Call>,
    /// status of the acknowledgement of call i after quiescence (None for non-writes / Err)
    pub statuses: Vec<Option<CommandStatus>>,
    /// obs[0] = fresh cache, obs[i+1] = after step i
    pub obs: Vec<Obs>,
    pub events_per_step: Vec<Vec<world::Event>>,
}

impl SeqRun {
    pub fn last(&self) -> usize {
        self.ops.len() - 1
    }
    pub fn before(&self) -> &Obs {
        &self.obs[self.obs.len() - 2]
    }
    pub fn after(&self) -> &Obs {
        &self.obs[self.obs.len() - 1]
    }
    pub fn after_or_initial(&self) -> &Obs {
        &self.obs[self.obs.len() - 1]
    }
    pub fn history(&self) -> Vec<String> {
        self.calls.iter().enumerate().map(|(i, c)| format!("{} -> {}{}", c.op.short(), res_short(&c.res), self.statuses[i].map(|s| format!(" / {}", status_short(&s))).unwrap_or_default())).collect()
    }
}

pub type SeqOracle = Arc<dyn Fn(&SeqRun, &mut Vec<Finding>) + Send + Sync>;

#[derive(Clone)]
pub struct SeqSpec {
    pub name: String,
    pub setup: Setup,
    pub world: WorldCfg,
    /// fixed prologue applied before the explored part (not deduplicated, oracle evaluated on it too)
    pub prefix: Vec<Op>,
    pub alphabet: Vec<Op>,
    pub depth: usize,
    /// optional filter: may `a` follow history `h`, given the keys the store holds after `h`? (keeps the alphabet's preconditions, e.g. total demand fits)
    pub allow: Option<Arc<dyn Fn(&[Op], &[K], &Op) -> bool + Send + Sync>>,
    pub oracle: SeqOracle,
    /// keys whose sketch estimates are part of the canonical state
    pub keys: Vec<K>,
    /// include the access-counting pipeline (buffers, sketch) in the canonical state
    pub canon_sketch: bool,
    /// specification-level ghost state the oracle derives from the history; it is part of the deduplication key,
    /// so two histories are only merged when the implementation state AND the expectations about it agree
    pub ghost_key: Option<Arc<dyn Fn(&SeqRun) -> String + Send + Sync>>,
    pub max_states: usize,
    pub time_cap_s: f64,
}

fn quiesce(env: &Env, shutdown_seen: bool) {
    world::wait_commands_acked();
    let n = env.ticks_sent.load(SeqCst);
    world::wait_event("sweep_done", n);
    if !shutdown_seen {
        let cache = env.cache.clone();
        world::wait_until_labelled(
            move |w| {
                let applied: i64 = w.events.iter().filter(|e| e.kind == "batch_applied").map(|e| e.data[0]).sum();
                let added = cache.stats_summary().get(&crate::cache::stats::StatsType::AccessAdded).unwrap_or(0) as i64;
                applied >= added
            },
            "access-batches",
            |_| "buffers were delivered to the access-count consumer but it never applied them".to_string(),
        );
    }
}

/// Execute one history on a fresh cache (inside a shuttle execution).
pub fn execute(setup: Setup, wcfg: WorldCfg, ops: &[Op]) -> SeqRun {
    world::reset(wcfg);
    let env = Env::new(setup);
    let mut ctx = ThreadCtx::new(0);
    let mut obs = vec![observe(&env)];
    let mut events_per_step = Vec::new();
    let mut shutdown_seen = false;
    for (i, op) in ops.iter().enumerate() {
        let mark = world::with(|w| w.events.len());
        ctx.exec(&env, i, op);
        if matches!(op, Op::Shutdown) {
            shutdown_seen = true;
        }
        quiesce(&env, shutdown_seen);
        obs.push(observe(&env));
        events_per_step.push(world::with(|w| w.events[mark..].to_vec()));
    }
    let statuses: Vec<Option<CommandStatus>> = (0..ops.len()).map(|i| ctx.acks.iter().find(|(c, _)| *c == i).map(|(_, a)| peek_status(a))).collect();
    let run = SeqRun { setup, ops: ops.to_vec(), calls: ctx.calls.clone(), statuses, obs, events_per_step };
    drop(ctx);
    env.teardown();
    world::finish();
    run
}

/// Canonical form of a quiescent state (DESIGN 3.4): ids renamed by rank, value tokens replaced by
/// the ordinal of the write (to that key) that produced them, stats dropped.
pub fn canon(run: &SeqRun, upto: usize, keys: &[K], sketch: bool) -> String {
    let o = &run.obs[upto];
    let mut ids: Vec<u64> = o.store.iter().map(|e| e.2).chain(o.weights.iter().map(|w| w.0)).chain(o.ttl.iter().map(|t| t.1)).collect();
    ids.sort();
    ids.dedup();
    let rank = |id: u64| ids.iter().position(|x| *x == id).unwrap();
    let val = |k: K, v: V| -> String {
        let mut n = 0;
        for c in run.calls.iter().take(upto) {
            if c.op.key() == Some(k) && c.value.is_some() {
                n += 1;
                if c.value == Some(v) {
                    return format!("w{}", n);
                }
            }
        }
        format!("?{}", v)
    };
    let mut s = format!("t{};", o.now_ms - T0_MS);
    for (k, v, id, e, d) in &o.store {
        s.push_str(&format!("S{}={}#{}@{:?}{};", k, val(*k, *v), rank(*id), e.map(|e| e - T0_MS), if *d { "d" } else { "" }));
    }
    for (id, k, h, w) in &o.weights {
        s.push_str(&format!("W#{}:{}h{}w{};", rank(*id), k, h, w));
    }
    s.push_str(&format!("U{};", o.weight_used));
    for (sh, id, e) in &o.ttl {
        s.push_str(&format!("T{}#{}@{};", sh, rank(*id), e - T0_MS));
    }
    let _ = keys;
    if sketch {
        s.push_str(&format!("B{:?};I{};", o.buffered, o.lfu_total_increments));
        s.push_str(&format!("E{:?}", o.estimates));
    }
    s
}

fn to_violation(f: Finding, run: &SeqRun) -> Violation {
    Violation {
        clause: f.clause,
        signature: f.signature,
        detail: format!("{} | history: {:?} | before: {} | after: {}", f.detail, run.history(), run.before().brief(), run.after().brief()),
        replay: json!({"kind": "history", "ops": run.ops.iter().map(op_to_json).collect::<Vec<_>>(), "history": run.history()}),
        cost: run.ops.len(),
    }
}

struct ItemOut {
    canon: String,
    present: Vec<K>,
    findings: usize,
    failed: bool,
}

/// Breadth-first search. Parallel over the transitions of one level.
pub fn search(spec: &SeqSpec, workers: usize) -> ScenarioResult {
    let t0 = std::time::Instant::now();
    let col = Collector::new();
    let mut seen: HashSet<String> = HashSet::new();
    let mut frontier: Vec<(Vec<Op>, Vec<K>)> = vec![(vec![], vec![])];
    let mut transitions: u64 = 0;
    let mut states_deep: u64 = 0;
    let mut depth_completed = 0;
    let mut capped: Option<String> = None;
    let mut nondet_prefixes: u64 = 0;
    // the initial state (after the fixed prefix)
    {
        let items = vec![spec.prefix.clone()];
        let outs = run_items(spec, &items, &col, 1, true);
        if let Some(o) = outs.into_iter().next().flatten() {
            frontier[0].1 = o.present.clone();
            seen.insert(o.canon);
        }
    }
    for d in 1..=spec.depth {
        let mut items: Vec<Vec<Op>> = Vec::new();
        for (h, present) in &frontier {
            for a in &spec.alphabet {
                if let Some(f) = &spec.allow {
                    if !f(h, present, a) {
                        continue;
                    }
                }
                let mut ops = spec.prefix.clone();
                ops.extend(h.iter().cloned());
                ops.push(a.clone());
                items.push(ops);
            }
        }
        if items.is_empty() {
            depth_completed = d;
            break;
        }
        let outs = run_items(spec, &items, &col, workers, false);
        transitions += items.len() as u64;
        let mut next: Vec<(Vec<Op>, Vec<K>)> = Vec::new();
        for (ops, out) in items.into_iter().zip(outs.into_iter()) {
            if let Some(o) = out {
                if o.failed {
                    continue;
                }
                if seen.insert(o.canon) {
                    if d >= 2 {
                        states_deep += 1;
                    }
                    next.push((ops[spec.prefix.len()..].to_vec(), o.present.clone()));
                }
            }
        }
        depth_completed = d;
        frontier = next;
        if frontier.is_empty() {
            break;
        }
        if seen.len() > spec.max_states {
            capped = Some(format!("state cap {} reached at depth {}", spec.max_states, d));
            break;
        }
        if t0.elapsed().as_secs_f64() > spec.time_cap_s && d < spec.depth {
            capped = Some(format!("time cap {:.0}s reached after completing depth {} of {}", spec.time_cap_s, d, spec.depth));
            break;
        }
    }
    let _ = nondet_prefixes;
    nondet_prefixes = 0;
    let g = col.0.lock().unwrap();
    ScenarioResult {
        name: spec.name.clone(),
        engine: "seq",
        params: json!({
            "setup": spec.setup.describe(),
            "prefix": spec.prefix.iter().map(|o| o.short()).collect::<Vec<_>>(),
            "alphabet": spec.alphabet.iter().map(|o| o.short()).collect::<Vec<_>>(),
            "depth": spec.depth,
            "nondeterministic_prefixes": nondet_prefixes,
        }),
        evaluations: transitions + 1,
        states: seen.len() as u64,
        transitions: transitions.max(1),
        validated: transitions + 1,
        distinct_nontrivial: states_deep,
        distinct_outcomes: g.outcomes.len() as u64,
        outcomes: g.outcomes.clone(),
        bound: None,
        depth: Some(depth_completed),
        exhaustive: capped.is_none(),
        capped,
        samples: g.samples.clone(),
        violations: g.violations.values().cloned().collect(),
        wall_s: t0.elapsed().as_secs_f64(),
        counters: g.counters.clone(),
        suspicious: None,
    }
}

fn run_items(spec: &SeqSpec, items: &[Vec<Op>], col: &Collector, workers: usize, whole_path: bool) -> Vec<Option<ItemOut>> {
    let n = items.len();
    let outs: Arc<Mutex<Vec<Option<ItemOut>>>> = Arc::new(Mutex::new((0..n).map(|_| None).collect()));
    let items = Arc::new(items.to_vec());
    let workers = workers.max(1).min(n.max(1));
    let chunk = (n + workers - 1) / workers;
    let mut hs = Vec::new();
    for w in 0..workers {
        let lo = w * chunk;
        let hi = ((w + 1) * chunk).min(n);
        if lo >= hi {
            continue;
        }
        let spec = spec.clone();
        let items = items.clone();
        let outs = outs.clone();
        let col = col.clone();
        hs.push(
            std::thread::Builder::new()
                .stack_size(8 << 20)
                .spawn(move || {
                    let (spec2, items2, outs2, col2) = (spec.clone(), items.clone(), outs.clone(), col.clone());
                    let body: Arc<dyn Fn(usize) + Send + Sync> = Arc::new(move |i| {
                        let ops = &items2[i];
                        let run = execute(spec2.setup, spec2.world, ops);
                        let mut nf = 0;
                        // evaluate the oracle on the last transition (on every prefix for the fixed prologue / replays)
                        let first = if whole_path { 1 } else { ops.len() };
                        for upto in first..=ops.len() {
                            if upto == 0 {
                                continue;
                            }
                            let sub = SeqRun {
                                setup: run.setup,
                                ops: run.ops[..upto].to_vec(),
                                calls: run.calls[..upto].to_vec(),
                                statuses: run.statuses[..upto].to_vec(),
                                obs: run.obs[..=upto].to_vec(),
                                events_per_step: run.events_per_step[..upto].to_vec(),
                            };
                            let mut findings = Vec::new();
                            (spec2.oracle)(&sub, &mut findings);
                            for c in sub.calls.iter().skip(upto - 1) {
                                if let Res::Panicked(m) = &c.res {
                                    findings.push(Finding::new("caller-panic", caller_panic_signature(c, m), format!("{} panicked on the caller's thread: {}", c.op.short(), m)));
                                }
                            }
                            nf += findings.len();
                            for f in findings {
                                col2.violation(to_violation(f, &sub));
                            }
                        }
                        col2.evaluated();
                        if !ops.is_empty() {
                            let c = run.calls.last().unwrap();
                            col2.outcome(format!("{}=>{}", c.op.short(), res_short(&c.res)));
                            col2.sample(json!({"history": run.history(), "state": run.after().brief()}), 3);
                        }
                        let mut cn = canon(&run, ops.len(), &spec2.keys, spec2.canon_sketch);
                        if let Some(g) = &spec2.ghost_key {
                            cn.push_str("|G:");
                            cn.push_str(&g(&run));
                        }
                        let present: Vec<K> = run.after_or_initial().store.iter().map(|e| e.0).collect();
                        outs2.lock().unwrap()[i] = Some(ItemOut { canon: cn, present, findings: nf, failed: false });
                    });
                    let failures = explore::run_batch(lo..hi, body);
                    for (i, kind, msg) in failures {
                        let ops = &items[i];
                        let sig = if kind == "deadlock" { format!("deadlock:{}", super::ilv::normalize_deadlock(&msg)) } else { format!("panic:{}", super::ilv::normalize_panic(&msg)) };
                        col.violation(Violation {
                            clause: kind.to_string(),
                            signature: sig,
                            detail: format!("{} while executing history {:?}", msg, ops.iter().map(|o| o.short()).collect::<Vec<_>>()),
                            replay: json!({"kind": "history", "ops": ops.iter().map(op_to_json).collect::<Vec<_>>()}),
                            cost: ops.len(),
                        });
                        outs.lock().unwrap()[i] = Some(ItemOut { canon: String::new(), present: vec![], findings: 1, failed: true });
                    }
                })
                .unwrap(),
        );
    }
    for h in hs {
        if h.join().is_err() {
            eprintln!("MACHINERY-ERROR seq worker thread panicked");
            std::process::exit(2);
        }
    }
    let mut g = outs.lock().unwrap();
    std::mem::take(&mut *g)
}

/// Replay one history twice; the observations must agree; returns the findings along the path.
pub fn replay_history(spec: &SeqSpec, ops: Vec<Op>) -> ReplayOutcome {
    let mut all: Vec<Vec<(String, String, String)>> = Vec::new();
    let mut canons = Vec::new();
    for _ in 0..2 {
        let col = Collector::new();
        let outs = run_items(spec, &[ops.clone()], &col, 1, true);
        let g = col.0.lock().unwrap();
        all.push(g.violations.values().map(|(v, _)| (v.clause.clone(), v.signature.clone(), v.detail.clone())).collect());
        canons.push(outs.into_iter().next().flatten().map(|o| o.canon).unwrap_or_default());
    }
    if canons[0] != canons[1] {
        return Err(format!("the same history produced different states: {} vs {}", canons[0], canons[1]));
    }
    Ok(all.remove(0))
}

pub fn seq_scenario(spec_of: impl Fn(&Ctx) -> SeqSpec + Send + Sync + Clone + 'static, name: &str) -> Scenario {
    let s1 = spec_of.clone();
    let s2 = spec_of;
    Scenario {
        name: name.to_string(),
        run: Box::new(move |ctx| {
            let spec = s1(ctx);
            search(&spec, ctx.workers)
        }),
        replay: Box::new(move |doc| -> ReplayOutcome {
            let ctx = Ctx { tier: crate::props::Tier::Thorough, seed: 0, workers: 1, budget_s: 0.0 };
            let spec = s2(&ctx);
            let ops: Vec<Op> = doc["replay"]["ops"].as_array().ok_or("replay file has no history")?.iter().map(op_from_json).collect::<Result<Vec<_>, _>>()?;
            replay_history(&spec, ops)
        }),
    }
}

// ------------------------------------------------------------------------------------------------
// Op <-> JSON
// ------------------------------------------------------------------------------------------------
fn variant_name(v: ReadVariant) -> &'static str {
    match v {
        ReadVariant::Get => "get",
        ReadVariant::GetRef => "get_ref",
        ReadVariant::MapGet => "map_get",
        ReadVariant::MapGetRef => "map_get_ref",
        ReadVariant::MultiGet => "multi_get",
        ReadVariant::MultiGetIterator => "multi_get_iterator",
        ReadVariant::MultiGetMapIterator => "multi_get_map_iterator",
    }
}
fn variant_from(s: &str) -> Result<ReadVariant, String> {
    ALL_READ_VARIANTS.iter().copied().find(|v| variant_name(*v) == s).ok_or_else(|| format!("unknown read variant {}", s))
}

pub fn op_to_json(op: &Op) -> Value {
    match op {
        Op::Put { k, w, ttl_ms } => json!({"op": "put", "k": k, "w": w, "ttl_ms": ttl_ms}),
        Op::ProbedPut { k, w, ttl_ms } => json!({"op": "probed_put", "k": k, "w": w, "ttl_ms": ttl_ms}),
        Op::Upsert { k, value, w, ttl_ms, remove_ttl } => json!({"op": "upsert", "k": k, "value": value, "w": w, "ttl_ms": ttl_ms, "remove_ttl": remove_ttl}),
        Op::Delete { k } => json!({"op": "delete", "k": k}),
        Op::Read { k, variant } => json!({"op": "read", "k": k, "variant": variant_name(*variant)}),
        Op::MultiRead { keys, variant } => json!({"op": "multi_read", "keys": keys, "variant": variant_name(*variant)}),
        Op::ReadAll { keys } => json!({"op": "read_all", "keys": keys}),
        Op::Await { call } => json!({"op": "await", "call": call}),
        Op::AwaitAll => json!({"op": "await_all"}),
        Op::Advance { ms } => json!({"op": "advance", "ms": ms}),
        Op::Tick => json!({"op": "tick"}),
        Op::TickWait => json!({"op": "tick_wait"}),
        Op::Shutdown => json!({"op": "shutdown"}),
        Op::TotalWeight => json!({"op": "total_weight"}),
        Op::WaitFlag { flag } => json!({"op": "wait_flag", "flag": flag}),
        Op::RaiseFlag { flag } => json!({"op": "raise_flag", "flag": flag}),
        Op::Quiesce => json!({"op": "quiesce"}),
    }
}

pub fn op_from_json(v: &Value) -> Result<Op, String> {
    let k = || v["k"].as_u64().ok_or_else(|| "missing k".to_string());
    let opt_i = |n: &str| v[n].as_i64();
    let opt_u = |n: &str| v[n].as_u64();
    Ok(match v["op"].as_str().unwrap_or("") {
        "put" => Op::Put { k: k()?, w: opt_i("w"), ttl_ms: opt_u("ttl_ms") },
        "probed_put" => Op::ProbedPut { k: k()?, w: opt_i("w"), ttl_ms: opt_u("ttl_ms") },
        "upsert" => Op::Upsert { k: k()?, value: v["value"].as_bool().unwrap_or(false), w: opt_i("w"), ttl_ms: opt_u("ttl_ms"), remove_ttl: v["remove_ttl"].as_bool().unwrap_or(false) },
        "delete" => Op::Delete { k: k()? },
        "read" => Op::Read { k: k()?, variant: variant_from(v["variant"].as_str().unwrap_or(""))? },
        "multi_read" => Op::MultiRead { keys: v["keys"].as_array().map(|a| a.iter().filter_map(|x| x.as_u64()).collect()).unwrap_or_default(), variant: variant_from(v["variant"].as_str().unwrap_or(""))? },
        "read_all" => Op::ReadAll { keys: v["keys"].as_array().map(|a| a.iter().filter_map(|x| x.as_u64()).collect()).unwrap_or_default() },
        "await" => Op::Await { call: v["call"].as_u64().unwrap_or(0) as usize },
        "await_all" => Op::AwaitAll,
        "advance" => Op::Advance { ms: v["ms"].as_u64().unwrap_or(0) },
        "tick" => Op::Tick,
        "tick_wait" => Op::TickWait,
        "shutdown" => Op::Shutdown,
        "total_weight" => Op::TotalWeight,
        "wait_flag" => Op::WaitFlag { flag: v["flag"].as_u64().unwrap_or(0) as usize },
        "raise_flag" => Op::RaiseFlag { flag: v["flag"].as_u64().unwrap_or(0) as usize },
        "quiesce" => Op::Quiesce,
        o => return Err(format!("unknown op {}", o)),
    })
}
