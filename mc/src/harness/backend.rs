//! The few things that differ between the `sched` (shuttle) and `native` (OS threads) backends.
use super::kit::Env;
use crate::verif_rt::world;
use std::sync::atomic::Ordering::SeqCst;

#[cfg(feature = "sched")]
pub fn block_on<F: std::future::Future>(f: F) -> F::Output {
    shuttle::future::block_on(f)
}

#[cfg(feature = "sched")]
pub use shuttle::thread::{spawn, JoinHandle};

pub fn wait_flag(env: &Env, flag: usize) {
    world::wait_until(|_| env.flags[flag].load(SeqCst) != 0);
}
