//! The few things that differ between the `sched` (shuttle) and `native` (OS threads) backends.
use super::kit::Env;
use crate::verif_rt::world;
use std::sync::atomic::Ordering::SeqCst;

#[cfg(feature = "sched")]
pub fn block_on<F: std::future::Future>(f: F) -> F::Output {
    shuttle::future::block_on(f)
}

#[cfg(feature = "sched")]
pub use shuttle::thread::{spawn, JoinHandle};

pub fn wait_flag(env: &Env, flag: usize) {
    world::wait_until(|_| env.flags[flag].load(SeqCst) != 0);
}

#[cfg(any(feature = "native", feature = "loomck"))]
pub use std::thread::{spawn, JoinHandle};

/// Minimal executor for the native backend: poll, park until woken.
#[cfg(any(feature = "native", feature = "loomck"))]
pub fn block_on<F: std::future::Future>(f: F) -> F::Output {
    use std::sync::Arc;
    use std::task::{Context, Poll, Wake, Waker};
    struct ThreadWaker(std::thread::Thread);
    impl Wake for ThreadWaker {
        fn wake(self: Arc<Self>) {
            self.0.unpark();
        }
        fn wake_by_ref(self: &Arc<Self>) {
            self.0.unpark();
        }
    }
    let waker = Waker::from(Arc::new(ThreadWaker(std::thread::current())));
    let mut cx = Context::from_waker(&waker);
    let mut f = std::pin::pin!(f);
    let start = std::time::Instant::now();
    loop {
        if let Poll::Ready(v) = f.as_mut().poll(&mut cx) {
            return v;
        }
        std::thread::park_timeout(std::time::Duration::from_millis(50));
        if start.elapsed() > crate::verif_rt::world::WATCHDOG {
            panic!("deadlock[await] an acknowledgement never completed (watchdog expired)");
        }
    }
}
