//! Backend-independent core of the `seq` engine: executing one history with quiescence after every
//! step, the canonical form of a quiescent state, and the JSON form of operations.
use super::kit::*;
use crate::cache::command::CommandStatus;
use crate::verif_rt::world::{self, WorldCfg};
use serde_json::{json, Value};
use std::sync::atomic::Ordering::SeqCst;

/// Everything observed along one executed history.
pub struct SeqRun {
    pub setup: Setup,
    pub ops: Vec<Op>,
    pub calls: Vec<Call>,
    /// status of the acknowledgement of call i after quiescence (None for non-writes / Err)
    pub statuses: Vec<Option<CommandStatus>>,
    /// obs[0] = fresh cache, obs[i+1] = after step i
    pub obs: Vec<Obs>,
    pub events_per_step: Vec<Vec<world::Event>>,
}

impl SeqRun {
    pub fn last(&self) -> usize {
        self.ops.len() - 1
    }
    pub fn before(&self) -> &Obs {
        &self.obs[self.obs.len() - 2]
    }
    pub fn after(&self) -> &Obs {
        &self.obs[self.obs.len() - 1]
    }
    pub fn after_or_initial(&self) -> &Obs {
        &self.obs[self.obs.len() - 1]
    }
    pub fn history(&self) -> Vec<String> {
        self.calls.iter().enumerate().map(|(i, c)| format!("{} -> {}{}", c.op.short(), res_short(&c.res), self.statuses[i].map(|s| format!(" / {}", status_short(&s))).unwrap_or_default())).collect()
    }
}

fn quiesce(env: &Env, shutdown_seen: bool) {
    world::wait_commands_acked();
    let n = env.ticks_sent.load(SeqCst);
    world::wait_event("sweep_done", n);
    if !shutdown_seen {
        let cache = env.cache.clone();
        world::wait_until_labelled(
            move |w| {
                let applied: i64 = w.events.iter().filter(|e| e.kind == "batch_applied").map(|e| e.data[0]).sum();
                let added = cache.stats_summary().get(&crate::cache::stats::StatsType::AccessAdded).unwrap_or(0) as i64;
                applied >= added
            },
            "access-batches",
            |_| "buffers were delivered to the access-count consumer but it never applied them".to_string(),
        );
    }
}

/// Execute one history on a fresh cache (inside a shuttle execution).
pub fn execute(setup: Setup, wcfg: WorldCfg, ops: &[Op]) -> SeqRun {
    world::reset(wcfg);
    let env = Env::new(setup);
    let mut ctx = ThreadCtx::new(0);
    let mut obs = vec![observe(&env)];
    let mut events_per_step = Vec::new();
    let mut shutdown_seen = false;
    for (i, op) in ops.iter().enumerate() {
        let mark = world::with(|w| w.events.len());
        ctx.exec(&env, i, op);
        if matches!(op, Op::Shutdown) {
            shutdown_seen = true;
        }
        quiesce(&env, shutdown_seen);
        obs.push(observe(&env));
        events_per_step.push(world::with(|w| w.events[mark..].to_vec()));
    }
    let statuses: Vec<Option<CommandStatus>> = (0..ops.len()).map(|i| ctx.acks.iter().find(|(c, _)| *c == i).map(|(_, a)| peek_status(a))).collect();
    let run = SeqRun { setup, ops: ops.to_vec(), calls: ctx.calls.clone(), statuses, obs, events_per_step };
    drop(ctx);
    env.teardown();
    world::finish();
    run
}

/// Canonical form of a quiescent state (DESIGN 3.4): ids renamed by rank, value tokens replaced by
/// the ordinal of the write (to that key) that produced them, stats dropped.
pub fn canon(run: &SeqRun, upto: usize, keys: &[K], sketch: bool) -> String {
    let o = &run.obs[upto];
    let mut ids: Vec<u64> = o.store.iter().map(|e| e.2).chain(o.weights.iter().map(|w| w.0)).chain(o.ttl.iter().map(|t| t.1)).collect();
    ids.sort();
    ids.dedup();
    let rank = |id: u64| ids.iter().position(|x| *x == id).unwrap();
    let val = |k: K, v: V| -> String {
        let mut n = 0;
        for c in run.calls.iter().take(upto) {
            if c.op.key() == Some(k) && c.value.is_some() {
                n += 1;
                if c.value == Some(v) {
                    return format!("w{}", n);
                }
            }
        }
        format!("?{}", v)
    };
    let mut s = format!("t{};", o.now_ms.wrapping_sub(T0_MS) as i64);
    for (k, v, id, e, d) in &o.store {
        s.push_str(&format!("S{}={}#{}@{:?}{};", k, val(*k, *v), rank(*id), e.map(|e| e.wrapping_sub(T0_MS) as i64), if *d { "d" } else { "" }));
    }
    for (id, k, h, w) in &o.weights {
        s.push_str(&format!("W#{}:{}h{}w{};", rank(*id), k, h, w));
    }
    s.push_str(&format!("U{};", o.weight_used));
    for (sh, id, e) in &o.ttl {
        s.push_str(&format!("T{}#{}@{};", sh, rank(*id), e.wrapping_sub(T0_MS) as i64));
    }
    let _ = keys;
    if sketch {
        s.push_str(&format!("B{:?};I{};", o.buffered, o.lfu_total_increments));
        s.push_str(&format!("E{:?}", o.estimates));
    }
    s
}

// ------------------------------------------------------------------------------------------------
// Op <-> JSON
// ------------------------------------------------------------------------------------------------
fn variant_name(v: ReadVariant) -> &'static str {
    match v {
        ReadVariant::Get => "get",
        ReadVariant::GetRef => "get_ref",
        ReadVariant::MapGet => "map_get",
        ReadVariant::MapGetRef => "map_get_ref",
        ReadVariant::MultiGet => "multi_get",
        ReadVariant::MultiGetIterator => "multi_get_iterator",
        ReadVariant::MultiGetMapIterator => "multi_get_map_iterator",
    }
}
fn variant_from(s: &str) -> Result<ReadVariant, String> {
    ALL_READ_VARIANTS.iter().copied().find(|v| variant_name(*v) == s).ok_or_else(|| format!("unknown read variant {}", s))
}

pub fn op_to_json(op: &Op) -> Value {
    match op {
        Op::Put { k, w, ttl_ms } => json!({"op": "put", "k": k, "w": w, "ttl_ms": ttl_ms}),
        Op::ProbedPut { k, w, ttl_ms } => json!({"op": "probed_put", "k": k, "w": w, "ttl_ms": ttl_ms}),
        Op::Upsert { k, value, w, ttl_ms, remove_ttl } => json!({"op": "upsert", "k": k, "value": value, "w": w, "ttl_ms": ttl_ms, "remove_ttl": remove_ttl}),
        Op::Delete { k } => json!({"op": "delete", "k": k}),
        Op::Read { k, variant } => json!({"op": "read", "k": k, "variant": variant_name(*variant)}),
        Op::MultiRead { keys, variant } => json!({"op": "multi_read", "keys": keys, "variant": variant_name(*variant)}),
        Op::ReadAll { keys } => json!({"op": "read_all", "keys": keys}),
        Op::Await { call } => json!({"op": "await", "call": call}),
        Op::AwaitAll => json!({"op": "await_all"}),
        Op::PollOnce { call } => json!({"op": "poll_once", "call": call}),
        Op::Advance { ms } => json!({"op": "advance", "ms": ms}),
        Op::Tick => json!({"op": "tick"}),
        Op::TickWait => json!({"op": "tick_wait"}),
        Op::Shutdown => json!({"op": "shutdown"}),
        Op::TotalWeight => json!({"op": "total_weight"}),
        Op::WaitFlag { flag } => json!({"op": "wait_flag", "flag": flag}),
        Op::RaiseFlag { flag } => json!({"op": "raise_flag", "flag": flag}),
        Op::Quiesce => json!({"op": "quiesce"}),
    }
}

pub fn op_from_json(v: &Value) -> Result<Op, String> {
    let k = || v["k"].as_u64().ok_or_else(|| "missing k".to_string());
    let opt_i = |n: &str| v[n].as_i64();
    let opt_u = |n: &str| v[n].as_u64();
    Ok(match v["op"].as_str().unwrap_or("") {
        "put" => Op::Put { k: k()?, w: opt_i("w"), ttl_ms: opt_u("ttl_ms") },
        "probed_put" => Op::ProbedPut { k: k()?, w: opt_i("w"), ttl_ms: opt_u("ttl_ms") },
        "upsert" => Op::Upsert { k: k()?, value: v["value"].as_bool().unwrap_or(false), w: opt_i("w"), ttl_ms: opt_u("ttl_ms"), remove_ttl: v["remove_ttl"].as_bool().unwrap_or(false) },
        "delete" => Op::Delete { k: k()? },
        "read" => Op::Read { k: k()?, variant: variant_from(v["variant"].as_str().unwrap_or(""))? },
        "multi_read" => Op::MultiRead { keys: v["keys"].as_array().map(|a| a.iter().filter_map(|x| x.as_u64()).collect()).unwrap_or_default(), variant: variant_from(v["variant"].as_str().unwrap_or(""))? },
        "read_all" => Op::ReadAll { keys: v["keys"].as_array().map(|a| a.iter().filter_map(|x| x.as_u64()).collect()).unwrap_or_default() },
        "await" => Op::Await { call: v["call"].as_u64().unwrap_or(0) as usize },
        "await_all" => Op::AwaitAll,
        "poll_once" => Op::PollOnce { call: v["call"].as_u64().unwrap_or(0) as usize },
        "advance" => Op::Advance { ms: v["ms"].as_u64().unwrap_or(0) },
        "tick" => Op::Tick,
        "tick_wait" => Op::TickWait,
        "shutdown" => Op::Shutdown,
        "total_weight" => Op::TotalWeight,
        "wait_flag" => Op::WaitFlag { flag: v["flag"].as_u64().unwrap_or(0) as usize },
        "raise_flag" => Op::RaiseFlag { flag: v["flag"].as_u64().unwrap_or(0) as usize },
        "quiesce" => Op::Quiesce,
        o => return Err(format!("unknown op {}", o)),
    })
}

// ------------------------------------------------------------------------------------------------
// Setup <-> JSON and the conformance trace format
// ------------------------------------------------------------------------------------------------
pub fn setup_to_json(s: &Setup) -> Value {
    let (wf, wa, wb) = match s.weight_fn {
        WeightFn::Const { c, ttl_extra } => ("const", c, ttl_extra),
        WeightFn::ByKey { offset } => ("by_key", offset, 0),
    };
    let (hf, hc) = match s.hash_fn {
        HashFn::Identity => ("identity", 0),
        HashFn::Constant(c) => ("constant", c),
    };
    json!({"weight": s.weight, "counters": s.counters, "capacity": s.capacity, "shards": s.shards, "queue": s.queue, "pool": s.pool, "buffer": s.buffer,
           "weight_fn": [wf, wa, wb], "hash_fn": [hf, hc], "t0_ms": s.t0_ms})
}

pub fn setup_from_json(v: &Value) -> Setup {
    let wf = match v["weight_fn"][0].as_str().unwrap_or("const") {
        "by_key" => WeightFn::ByKey { offset: v["weight_fn"][1].as_i64().unwrap_or(0) },
        _ => WeightFn::Const { c: v["weight_fn"][1].as_i64().unwrap_or(1), ttl_extra: v["weight_fn"][2].as_i64().unwrap_or(0) },
    };
    let hf = match v["hash_fn"][0].as_str().unwrap_or("identity") {
        "constant" => HashFn::Constant(v["hash_fn"][1].as_u64().unwrap_or(0)),
        _ => HashFn::Identity,
    };
    Setup {
        weight: v["weight"].as_i64().unwrap_or(100),
        counters: v["counters"].as_u64().unwrap_or(16),
        capacity: v["capacity"].as_u64().unwrap_or(8) as usize,
        shards: v["shards"].as_u64().unwrap_or(2) as usize,
        queue: v["queue"].as_u64().unwrap_or(1) as usize,
        pool: v["pool"].as_u64().unwrap_or(1) as usize,
        buffer: v["buffer"].as_u64().unwrap_or(2) as usize,
        weight_fn: wf,
        hash_fn: hf,
        t0_ms: v["t0_ms"].as_u64().unwrap_or(T0_MS),
    }
}

/// One line of a conformance trace: a history with what the executing backend observed. The state of the
/// access-counting pipeline is recorded separately: when buffers were dropped (the consumer was slower than the
/// reader) it depends on real timing and is not comparable between backends.
pub fn trace_line(run: &SeqRun) -> Value {
    let n = run.ops.len();
    let full = canon(run, n, &[], true);
    let plain = canon(run, n, &[], false);
    json!({
        "setup": setup_to_json(&run.setup),
        "ops": run.ops.iter().map(op_to_json).collect::<Vec<_>>(),
        "observed": run.history(),
        "canon": plain,
        "sketch": full[plain.len()..].to_string(),
        "dropped": run.obs[n].stats[ACCESS_DROPPED],
        "evicted": run.events_per_step.iter().flatten().any(|e| e.kind == "admission_victim"),
    })
}
