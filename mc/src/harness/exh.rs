//! Engine `exh`: exhaustive enumeration of the inputs of pure components against boring reference
//! models. No scheduler is involved; cases are split over OS threads.
use super::report::{Collector, ScenarioResult, Violation};
use serde_json::{json, Value};
use std::sync::Arc;

pub struct ExhCase {
    pub id: u64,
}

/// Runs `check(i, &collector)` for every i in 0..n on `workers` threads. `check` reports through the collector.
pub fn run_cases(name: &str, params: Value, n: u64, workers: usize, check: Arc<dyn Fn(u64, &Collector) + Send + Sync>) -> ScenarioResult {
    let t0 = std::time::Instant::now();
    let col = Collector::new();
    let workers = workers.max(1).min(n.max(1) as usize);
    let mut hs = Vec::new();
    for w in 0..workers as u64 {
        let check = check.clone();
        let col = col.clone();
        let wn = workers as u64;
        hs.push(std::thread::spawn(move || {
            let mut i = w;
            while i < n {
                check(i, &col);
                i += wn;
            }
        }));
    }
    for h in hs {
        if h.join().is_err() {
            eprintln!("MACHINERY-ERROR exh worker panicked in {}", name);
            std::process::exit(2);
        }
    }
    let g = col.0.lock().unwrap();
    ScenarioResult {
        name: name.to_string(),
        engine: "exh",
        params,
        evaluations: g.evaluations,
        states: g.evaluations.max(1),
        transitions: g.counters.get("steps").copied().unwrap_or(g.evaluations).max(1),
        validated: g.evaluations,
        distinct_nontrivial: g.nontrivial.len() as u64,
        distinct_outcomes: g.outcomes.len() as u64,
        outcomes: g.outcomes.clone(),
        bound: None,
        depth: None,
        exhaustive: true,
        capped: None,
        samples: g.samples.clone(),
        violations: g.violations.values().cloned().collect(),
        wall_s: t0.elapsed().as_secs_f64(),
        counters: g.counters.clone(),
        suspicious: None,
    }
}

pub fn violation(clause: &str, signature: &str, detail: String, input: Value) -> Violation {
    Violation { clause: clause.to_string(), signature: signature.to_string(), detail, replay: json!({"kind": "input", "input": input}), cost: 0 }
}
