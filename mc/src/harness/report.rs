//! Collecting what an exploration saw: outcomes, violations (with a replayable artefact), samples,
//! and turning it into the evidence file / VIOLATION / KNOWN-FINDING lines.

use serde_json::{json, Value};
use std::collections::{BTreeMap, BTreeSet};
use std::sync::{Arc, Mutex};

#[derive(Clone, Debug)]
pub struct Violation {
    pub clause: String,
    /// Narrow identification of the culprit (scenario-independent where possible); what
    /// known_findings.jsonl matches on.
    pub signature: String,
    pub detail: String,
    /// schedule (ilv), history (seq) or input (exh), as JSON
    pub replay: Value,
    pub cost: usize,
}

#[derive(Default)]
pub struct CollectorInner {
    pub outcomes: BTreeMap<String, u64>,
    pub nontrivial: BTreeSet<u64>,
    pub samples: Vec<Value>,
    pub violations: BTreeMap<(String, String), (Violation, u64)>,
    pub evaluations: u64,
    pub counters: BTreeMap<String, u64>,
}

#[derive(Clone, Default)]
pub struct Collector(pub Arc<Mutex<CollectorInner>>);

pub fn fnv(s: &str) -> u64 {
    let mut h: u64 = 0xcbf29ce484222325;
    for b in s.as_bytes() {
        h = (h ^ *b as u64).wrapping_mul(0x100000001b3);
    }
    h
}

impl Collector {
    pub fn new() -> Self {
        Collector::default()
    }
    pub fn evaluated(&self) {
        self.0.lock().unwrap().evaluations += 1;
    }
    pub fn outcome(&self, s: impl Into<String>) {
        *self.0.lock().unwrap().outcomes.entry(s.into()).or_insert(0) += 1;
    }
    pub fn count(&self, key: &str, n: u64) {
        *self.0.lock().unwrap().counters.entry(key.to_string()).or_insert(0) += n;
    }
    /// Register a case as distinct and non-trivial by the scenario's own rule.
    pub fn nontrivial(&self, key: &str) {
        self.0.lock().unwrap().nontrivial.insert(fnv(key));
    }
    pub fn sample(&self, v: Value, max: usize) {
        let mut g = self.0.lock().unwrap();
        if g.samples.len() < max {
            g.samples.push(v);
        }
    }
    pub fn violation(&self, v: Violation) {
        let mut g = self.0.lock().unwrap();
        let key = (v.clause.clone(), v.signature.clone());
        match g.violations.get_mut(&key) {
            Some((old, n)) => {
                *n += 1;
                if v.cost < old.cost {
                    *old = v;
                }
            }
            None => {
                g.violations.insert(key, (v, 1));
            }
        }
    }
    pub fn has_violations(&self) -> bool {
        !self.0.lock().unwrap().violations.is_empty()
    }
}

/// The result of one scenario / sequence search / table, whatever the engine.
#[derive(Clone, Debug)]
pub struct ScenarioResult {
    pub name: String,
    pub engine: &'static str,
    pub params: Value,
    pub evaluations: u64,
    pub states: u64,
    pub transitions: u64,
    pub validated: u64,
    pub distinct_nontrivial: u64,
    pub distinct_outcomes: u64,
    pub outcomes: BTreeMap<String, u64>,
    pub bound: Option<u32>,
    pub depth: Option<usize>,
    pub exhaustive: bool,
    pub capped: Option<String>,
    pub samples: Vec<Value>,
    pub violations: Vec<(Violation, u64)>,
    pub wall_s: f64,
    pub counters: BTreeMap<String, u64>,
    pub suspicious: Option<String>,
}

impl ScenarioResult {
    pub fn to_json(&self) -> Value {
        let mut outcomes: Vec<(&String, &u64)> = self.outcomes.iter().collect();
        outcomes.sort_by(|a, b| b.1.cmp(a.1));
        json!({
            "name": self.name,
            "engine": self.engine,
            "params": self.params,
            "evaluations": self.evaluations,
            "states": self.states,
            "transitions": self.transitions,
            "distinct_nontrivial": self.distinct_nontrivial,
            "distinct_outcomes": self.distinct_outcomes,
            "top_outcomes": outcomes.iter().take(6).map(|(k, v)| json!({"outcome": k, "count": v})).collect::<Vec<_>>(),
            "preemption_bound_completed": self.bound,
            "depth_completed": self.depth,
            "exhaustive": self.exhaustive,
            "cap_hit": self.capped,
            "violations": self.violations.iter().map(|(v, n)| json!({"clause": v.clause, "signature": v.signature, "count": n})).collect::<Vec<_>>(),
            "wall_s": (self.wall_s * 1000.0).round() / 1000.0,
            "counters": self.counters,
            "suspicious": self.suspicious,
        })
    }
}

#[derive(Clone, Debug)]
pub struct KnownFinding {
    pub property: String,
    pub signature: String,
    pub status: String, // "known" | "fixed"
    pub description: String,
}

pub fn load_known(path: &str) -> Vec<KnownFinding> {
    let mut out = Vec::new();
    if let Ok(s) = std::fs::read_to_string(path) {
        for line in s.lines() {
            let line = line.trim();
            if line.is_empty() || line.starts_with('#') {
                continue;
            }
            if let Ok(v) = serde_json::from_str::<Value>(line) {
                out.push(KnownFinding {
                    property: v["property"].as_str().unwrap_or("").to_string(),
                    signature: v["signature"].as_str().unwrap_or("").to_string(),
                    status: v["status"].as_str().unwrap_or("known").to_string(),
                    description: v["description"].as_str().unwrap_or("").to_string(),
                });
            }
        }
    }
    out
}

pub struct PropertyRun {
    pub property: String,
    pub tier: String,
    pub seed: u64,
    pub technique: String,
    pub rule: String,
    pub assumptions: Vec<String>,
    pub results: Vec<ScenarioResult>,
    pub wall_s: f64,
}

impl PropertyRun {
    /// Write evidence + replay files, print verdict lines, return the process exit code.
    pub fn finish(&self, evidence_dir: &str, known: &[KnownFinding]) -> i32 {
        let replay_dir = format!("{}/replays", evidence_dir);
        let _ = std::fs::create_dir_all(&replay_dir);
        // stale replay files of this property would be misleading
        if let Ok(rd) = std::fs::read_dir(&replay_dir) {
            for e in rd.flatten() {
                if e.file_name().to_string_lossy().starts_with(&format!("{}-", self.property)) {
                    let _ = std::fs::remove_file(e.path());
                }
            }
        }
        let mut new_violations = 0;
        let mut known_hits: BTreeMap<String, (String, u64)> = BTreeMap::new();
        let mut n = 0;
        let mut lines = Vec::new();
        for r in &self.results {
            for (v, count) in &r.violations {
                let kf = known.iter().find(|k| k.property == self.property && k.status == "known" && k.signature == v.signature);
                if let Some(k) = kf {
                    let e = known_hits.entry(v.signature.clone()).or_insert((k.description.clone(), 0));
                    e.1 += count;
                    continue;
                }
                n += 1;
                new_violations += 1;
                let path = format!("{}/{}-{}.json", replay_dir, self.property, n);
                let doc = json!({
                    "property": self.property,
                    "scenario": r.name,
                    "engine": r.engine,
                    "params": r.params,
                    "clause": v.clause,
                    "signature": v.signature,
                    "detail": v.detail,
                    "replay": v.replay,
                    "occurrences": count,
                });
                let _ = std::fs::write(&path, serde_json::to_string_pretty(&doc).unwrap());
                lines.push(format!("VIOLATION property={} replay={}", self.property, path));
                eprintln!("  [{}] {} :: {} :: {}", r.name, v.clause, v.signature, v.detail);
            }
        }
        for (sig, (desc, count)) in &known_hits {
            println!("KNOWN-FINDING: property={} {} [{}] ({} occurrences)", self.property, desc, sig, count);
        }
        let evaluations: u64 = self.results.iter().map(|r| r.evaluations).sum();
        let states: u64 = self.results.iter().map(|r| r.states).sum();
        let transitions: u64 = self.results.iter().map(|r| r.transitions).sum();
        let validated: u64 = self.results.iter().map(|r| r.validated).sum();
        let nontrivial: u64 = self.results.iter().map(|r| r.distinct_nontrivial).sum();
        let exhaustive = self.results.iter().all(|r| r.exhaustive);
        let mut samples: Vec<Value> = Vec::new();
        for r in &self.results {
            for s in r.samples.iter().take(2) {
                if samples.len() < 12 {
                    samples.push(json!({"scenario": r.name, "case": s}));
                }
            }
        }
        if samples.is_empty() {
            samples.push(json!({"note": "no sample recorded"}));
        }
        let caps: Vec<String> = self.results.iter().filter_map(|r| r.capped.as_ref().map(|c| format!("{}: {}", r.name, c))).collect();
        let suspicious: Vec<String> = self.results.iter().filter_map(|r| r.suspicious.as_ref().map(|c| format!("{}: {}", r.name, c))).collect();
        let ev = json!({
            "property_id": self.property,
            "tier": self.tier,
            "seed": self.seed,
            "level": "model_checking",
            "coverage": {
                "states": states.max(1),
                "transitions": transitions.max(1),
                "traces_validated_against_impl": validated,
                "evaluations": evaluations,
                "distinct_nontrivial": nontrivial,
                "rule": self.rule,
                "samples": samples,
                "exhaustive": exhaustive,
                "caps_hit": caps,
                "suspicious": suspicious,
                "technique": self.technique,
                "scenarios": self.results.iter().map(|r| r.to_json()).collect::<Vec<_>>(),
                "known_findings_reproduced": known_hits.iter().map(|(s, (d, c))| json!({"signature": s, "description": d, "occurrences": c})).collect::<Vec<_>>(),
            },
            "assumptions": self.assumptions,
            "wall_s": (self.wall_s * 1000.0).round() / 1000.0,
            "violations": new_violations,
        });
        let path = format!("{}/{}.json", evidence_dir, self.property);
        if let Err(e) = std::fs::write(&path, serde_json::to_string_pretty(&ev).unwrap()) {
            eprintln!("MACHINERY-ERROR cannot write {}: {}", path, e);
            return 2;
        }
        for l in &lines {
            println!("{}", l);
        }
        println!(
            "{} tier={} scenarios={} evaluations={} states={} transitions={} nontrivial={} exhaustive={} violations={} known={} wall={:.1}s",
            self.property,
            self.tier,
            self.results.len(),
            evaluations,
            states,
            transitions,
            nontrivial,
            exhaustive,
            new_violations,
            known_hits.len(),
            self.wall_s
        );
        if new_violations > 0 {
            1
        } else {
            0
        }
    }
}
