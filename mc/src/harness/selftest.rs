//! Self-tests of the explorer and the shims on textbook programs with *known* answers, so that a
//! broken explorer cannot pass silently. Run at the start of every `mc run` (a few milliseconds).
use crate::verif_rt::explore::{self, ExploreCfg};
use crate::verif_rt::sync::atomic::{AtomicUsize, Ordering};
use crate::verif_rt::sync::parking_lot::{Mutex, RwLock};
use crate::verif_rt::world::{self, WorldCfg};
use std::collections::BTreeSet;
use std::sync::{Arc, Mutex as StdMutex};

fn cfg(bound: u32) -> ExploreCfg {
    ExploreCfg { bound, workers: 1, split_depth: 0, max_executions: None, time_cap: None, max_failures: 1000, stop_flag: None }
}

/// shuttle prints a line to stderr for every deadlock it detects; the self-test provokes some on purpose.
struct QuietStderr(i32);
impl QuietStderr {
    fn new() -> Self {
        unsafe {
            let saved = libc::dup(2);
            let null = libc::open(b"/dev/null\0".as_ptr() as *const libc::c_char, libc::O_WRONLY);
            if null >= 0 {
                libc::dup2(null, 2);
                libc::close(null);
            }
            QuietStderr(saved)
        }
    }
}
impl Drop for QuietStderr {
    fn drop(&mut self) {
        unsafe {
            if self.0 >= 0 {
                libc::dup2(self.0, 2);
                libc::close(self.0);
            }
        }
    }
}

/// Returns a list of failed expectations (empty = fine).
pub fn run() -> Vec<String> {
    let _quiet = QuietStderr::new();
    let mut bad = Vec::new();

    // 1. all interleavings of two threads with k atomic steps each are produced: C(2k, k) distinct orders
    for k in 1..=3usize {
        let orders: Arc<StdMutex<BTreeSet<Vec<u8>>>> = Arc::new(StdMutex::new(BTreeSet::new()));
        let o2 = orders.clone();
        let st = explore::explore(
            &cfg(1000),
            Arc::new(move || {
                world::reset(WorldCfg::default());
                let log: Arc<StdMutex<Vec<u8>>> = Arc::new(StdMutex::new(Vec::new()));
                let a = Arc::new(AtomicUsize::new(0));
                explore::window(true);
                let hs: Vec<_> = (0..2u8)
                    .map(|t| {
                        let (a, log) = (a.clone(), log.clone());
                        crate::harness::backend::spawn(move || {
                            for _ in 0..k {
                                a.fetch_add(1, Ordering::SeqCst);
                                log.lock().unwrap().push(t);
                            }
                        })
                    })
                    .collect();
                for h in hs {
                    h.join().unwrap();
                }
                explore::window(false);
                o2.lock().unwrap().insert(log.lock().unwrap().clone());
                world::finish();
            }),
        );
        let want = match k {
            1 => 2,
            2 => 6,
            _ => 20,
        };
        let got = orders.lock().unwrap().len();
        if got != want || !st.failures.is_empty() {
            bad.push(format!("interleavings of 2 threads x {} steps: {} distinct orders (expected {}), failures {}", k, got, want, st.failures.len()));
        }
    }

    // 2. lost update: load; store on two threads loses an increment in some schedule, already with one preemption,
    //    and in no schedule with zero preemptions
    for (bound, expect_loss) in [(0u32, false), (1, true)] {
        let finals: Arc<StdMutex<BTreeSet<usize>>> = Arc::new(StdMutex::new(BTreeSet::new()));
        let f2 = finals.clone();
        explore::explore(
            &cfg(bound),
            Arc::new(move || {
                world::reset(WorldCfg::default());
                let a = Arc::new(AtomicUsize::new(0));
                explore::window(true);
                let hs: Vec<_> = (0..2)
                    .map(|_| {
                        let a = a.clone();
                        crate::harness::backend::spawn(move || {
                            let v = a.load(Ordering::SeqCst);
                            a.store(v + 1, Ordering::SeqCst);
                        })
                    })
                    .collect();
                for h in hs {
                    h.join().unwrap();
                }
                explore::window(false);
                f2.lock().unwrap().insert(a.verif_peek());
                world::finish();
            }),
        );
        let lost = finals.lock().unwrap().contains(&1);
        if lost != expect_loss {
            bad.push(format!("lost update with preemption bound {}: lost={} (expected {})", bound, lost, expect_loss));
        }
    }

    // 3. AB/BA: the deadlock is found, the search resumes and still visits the non-deadlocking schedules
    {
        let completed = Arc::new(std::sync::atomic::AtomicUsize::new(0));
        let c2 = completed.clone();
        let st = explore::explore(
            &cfg(1),
            Arc::new(move || {
                world::reset(WorldCfg::default());
                let a = Arc::new(Mutex::new(0u32));
                let b = Arc::new(Mutex::new(0u32));
                explore::window(true);
                let (a2, b2) = (a.clone(), b.clone());
                let t = crate::harness::backend::spawn(move || {
                    let _x = a2.lock();
                    let _y = b2.lock();
                });
                {
                    let _y = b.lock();
                    let _x = a.lock();
                }
                t.join().unwrap();
                explore::window(false);
                c2.fetch_add(1, std::sync::atomic::Ordering::SeqCst);
                world::finish();
            }),
        );
        let deadlocks = st.failures.iter().filter(|f| f.kind == "deadlock").count();
        if deadlocks == 0 || completed.load(std::sync::atomic::Ordering::SeqCst) == 0 {
            bad.push(format!("AB/BA: {} deadlocks found, {} executions completed (both must be > 0)", deadlocks, completed.load(std::sync::atomic::Ordering::SeqCst)));
        }
    }

    // 4. recursive read with a writer in between: deadlocks under parking_lot's rule only
    for (fair, expect) in [(false, false), (true, true)] {
        let st = explore::explore(
            &cfg(2),
            Arc::new(move || {
                world::reset(WorldCfg { fair_rwlocks: fair, ..WorldCfg::default() });
                let l = Arc::new(RwLock::new(0u32));
                explore::window(true);
                let l2 = l.clone();
                let t = crate::harness::backend::spawn(move || {
                    *l2.write() += 1;
                });
                {
                    let g1 = l.read();
                    let g2 = l.read();
                    let _ = *g1 + *g2;
                }
                t.join().unwrap();
                explore::window(false);
                world::finish();
            }),
        );
        let found = st.failures.iter().any(|f| f.kind == "deadlock");
        if found != expect {
            bad.push(format!("recursive read vs writer (fair={}): deadlock found={} (expected {})", fair, found, expect));
        }
    }

    // 5. bounded channel: a sender blocks on a full queue and is released by the receiver; FIFO order
    {
        let ok = Arc::new(std::sync::atomic::AtomicUsize::new(0));
        let ok2 = ok.clone();
        let st = explore::explore(
            &cfg(2),
            Arc::new(move || {
                world::reset(WorldCfg::default());
                let (s, r) = crate::verif_rt::sync::crossbeam_channel::bounded::<u32>(1);
                explore::window(true);
                let t = crate::harness::backend::spawn(move || {
                    for i in 0..3 {
                        s.send(i).unwrap();
                    }
                });
                let got: Vec<u32> = r.iter().collect();
                t.join().unwrap();
                explore::window(false);
                if got == vec![0, 1, 2] {
                    ok2.fetch_add(1, std::sync::atomic::Ordering::SeqCst);
                }
                world::finish();
            }),
        );
        if ok.load(std::sync::atomic::Ordering::SeqCst) as u64 != st.executions || !st.failures.is_empty() || st.executions < 3 {
            bad.push(format!("bounded channel: {} of {} executions delivered 0,1,2 in order, failures {}", ok.load(std::sync::atomic::Ordering::SeqCst), st.executions, st.failures.len()));
        }
    }

    // 6. replay determinism: the same choices give the same interleaving twice
    {
        let seen: Arc<StdMutex<Vec<Vec<u8>>>> = Arc::new(StdMutex::new(Vec::new()));
        for _ in 0..2 {
            let s2 = seen.clone();
            let r = explore::replay(
                vec![0, 1, 0, 1, 1],
                Arc::new(move || {
                    world::reset(WorldCfg::default());
                    let log: Arc<StdMutex<Vec<u8>>> = Arc::new(StdMutex::new(Vec::new()));
                    let a = Arc::new(AtomicUsize::new(0));
                    explore::window(true);
                    let hs: Vec<_> = (0..2u8)
                        .map(|t| {
                            let (a, log) = (a.clone(), log.clone());
                            crate::harness::backend::spawn(move || {
                                for _ in 0..2 {
                                    a.fetch_add(1, Ordering::SeqCst);
                                    log.lock().unwrap().push(t);
                                }
                            })
                        })
                        .collect();
                    for h in hs {
                        h.join().unwrap();
                    }
                    explore::window(false);
                    s2.lock().unwrap().push(log.lock().unwrap().clone());
                    world::finish();
                }),
            );
            if r.is_err() {
                bad.push(format!("replay failed: {:?}", r.err().map(|f| f.message)));
            }
        }
        let s = seen.lock().unwrap();
        if s.len() != 2 || s[0] != s[1] {
            bad.push(format!("replay is not deterministic: {:?}", *s));
        }
    }
    bad
}
