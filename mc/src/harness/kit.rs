//! Shared harness vocabulary: cache set-up, the operation alphabet, an interpreter that records a
//! call/return history with stamps, and internal-state observations through the read-only accessors.

use crate::cache::cached::CacheD;
use crate::cache::clock::Clock;
use crate::cache::command::acknowledgement::CommandAcknowledgement;
use crate::cache::command::{CommandStatus, RejectionReason};
use crate::cache::config::ConfigBuilder;
use crate::cache::put_or_update::PutOrUpdateRequestBuilder;
use crate::cache::stats::StatsType;
use crate::verif_rt::world;
use std::sync::atomic::{AtomicU64, Ordering::SeqCst};
use std::sync::{Arc, Mutex};
use std::time::{Duration, SystemTime, UNIX_EPOCH};

pub type K = u64;
pub type V = u64;
pub type Cache = CacheD<K, V>;

/// Epoch of the harness clock, in milliseconds (a round number of seconds so that shard arithmetic is readable).
pub const T0_MS: u64 = 1_000_000_000;

#[derive(Clone)]
pub struct HarnessClock {
    pub now_ms: Arc<AtomicU64>,
    pub is_point: bool,
}
impl Clock for HarnessClock {
    fn now(&self) -> SystemTime {
        if self.is_point {
            world::sched_point();
        }
        UNIX_EPOCH + Duration::from_millis(self.now_ms.load(SeqCst))
    }
}

/// Special time-to-live encodings for the boundary alphabet (C17).
pub const TTL_DURATION_MAX: u64 = u64::MAX;
pub const TTL_U64_MAX_SECS: u64 = u64::MAX - 1;
pub const TTL_ONE_NANO: u64 = u64::MAX - 2;
pub fn ttl_of(ms: u64) -> Duration {
    match ms {
        TTL_DURATION_MAX => Duration::MAX,
        TTL_U64_MAX_SECS => Duration::from_secs(u64::MAX),
        TTL_ONE_NANO => Duration::from_nanos(1),
        ms => Duration::from_millis(ms),
    }
}

pub fn ms_of(t: SystemTime) -> u64 {
    t.duration_since(UNIX_EPOCH).map(|d| d.as_millis() as u64).unwrap_or(0)
}

#[derive(Clone, Copy, Debug, PartialEq, Eq)]
pub enum WeightFn {
    /// every key/value weighs `c`; `+ttl_extra` when a TTL is given (mirrors the default calculation)
    Const { c: i64, ttl_extra: i64 },
    /// weight = key + offset
    ByKey { offset: i64 },
}

#[derive(Clone, Copy, Debug, PartialEq, Eq)]
pub enum HashFn {
    Identity,
    Constant(u64),
}

#[derive(Clone, Copy, Debug)]
pub struct Setup {
    pub weight: i64,
    pub counters: u64,
    pub capacity: usize,
    pub shards: usize,
    pub queue: usize,
    pub pool: usize,
    pub buffer: usize,
    pub weight_fn: WeightFn,
    pub hash_fn: HashFn,
    /// where the harness clock starts (ms since the UNIX epoch); T0_MS unless a scenario is about the epoch itself
    pub t0_ms: u64,
}

impl Default for Setup {
    fn default() -> Self {
        Setup { weight: 100, counters: 16, capacity: 8, shards: 2, queue: 1, pool: 1, buffer: 2, weight_fn: WeightFn::Const { c: 1, ttl_extra: 0 }, hash_fn: HashFn::Identity, t0_ms: T0_MS }
    }
}

impl Setup {
    pub fn describe(&self) -> String {
        format!(
            "W={} counters={} shards={} queue={} pool={} buffer={} wfn={:?} hfn={:?}{}",
            self.weight, self.counters, self.shards, self.queue, self.pool, self.buffer, self.weight_fn, self.hash_fn, if self.t0_ms != T0_MS { format!(" clock-origin={}ms", self.t0_ms) } else { String::new() }
        )
    }
}

#[derive(Clone, Copy, Debug, PartialEq, Eq, Hash, PartialOrd, Ord)]
pub enum ReadVariant {
    Get,
    GetRef,
    MapGet,
    MapGetRef,
    MultiGet,
    MultiGetIterator,
    MultiGetMapIterator,
}
pub const ALL_READ_VARIANTS: [ReadVariant; 7] = [
    ReadVariant::Get,
    ReadVariant::GetRef,
    ReadVariant::MapGet,
    ReadVariant::MapGetRef,
    ReadVariant::MultiGet,
    ReadVariant::MultiGetIterator,
    ReadVariant::MultiGetMapIterator,
];

#[derive(Clone, Debug, PartialEq, Eq, Hash)]
pub enum Op {
    /// the four put variants: (weight, ttl) given or not
    Put { k: K, w: Option<i64>, ttl_ms: Option<u64> },
    /// get(k) immediately followed by the put: binds 'currently readable' to what a read really returns
    ProbedPut { k: K, w: Option<i64>, ttl_ms: Option<u64> },
    Upsert { k: K, value: bool, w: Option<i64>, ttl_ms: Option<u64>, remove_ttl: bool },
    Delete { k: K },
    Read { k: K, variant: ReadVariant },
    /// multi-key read through one of the three multi variants
    MultiRead { keys: Vec<K>, variant: ReadVariant },
    /// every read variant for every key, variant-major: result[v * keys.len() + i]
    ReadAll { keys: Vec<K> },
    /// await the acknowledgement of this thread's call number `call` (index into the thread's op list)
    Await { call: usize },
    /// await every acknowledgement this thread obtained so far
    AwaitAll,
    /// poll the acknowledgement of call number `call` once from a context of its own (a waker that is not the one a
    /// later `Await` blocks on) and give up: what a `select!` / timeout around the acknowledgement does
    PollOnce { call: usize },
    Advance { ms: u64 },
    /// send one manual tick to the sweeper (blocks while the previous tick has not been taken)
    Tick,
    /// tick, then wait until that sweep has finished
    TickWait,
    Shutdown,
    TotalWeight,
    /// wait until the flag has been raised / raise it (real-time ordering between threads)
    WaitFlag { flag: usize },
    RaiseFlag { flag: usize },
    /// wait until every command sent so far has been acknowledged by the worker
    Quiesce,
}

impl Op {
    pub fn short(&self) -> String {
        match self {
            Op::Put { k, w, ttl_ms } => format!("put({}{}{})", k, w.map(|w| format!(",w={}", w)).unwrap_or_default(), ttl_ms.map(|t| format!(",ttl={}ms", t)).unwrap_or_default()),
            Op::ProbedPut { k, w, ttl_ms } => format!("get+put({}{}{})", k, w.map(|w| format!(",w={}", w)).unwrap_or_default(), ttl_ms.map(|t| format!(",ttl={}ms", t)).unwrap_or_default()),
            Op::Upsert { k, value, w, ttl_ms, remove_ttl } => format!(
                "upsert({}{}{}{}{})",
                k,
                if *value { ",v" } else { "" },
                w.map(|w| format!(",w={}", w)).unwrap_or_default(),
                ttl_ms.map(|t| format!(",ttl={}ms", t)).unwrap_or_default(),
                if *remove_ttl { ",rmttl" } else { "" }
            ),
            Op::Delete { k } => format!("delete({})", k),
            Op::Read { k, variant } => format!("{:?}({})", variant, k),
            Op::MultiRead { keys, variant } => format!("{:?}({:?})", variant, keys),
            Op::ReadAll { keys } => format!("read_all_variants({:?})", keys),
            Op::Await { call } => format!("await(#{})", call),
            Op::AwaitAll => "await_all".into(),
            Op::PollOnce { call } => format!("poll_once(#{})", call),
            Op::Advance { ms } => format!("clock+{}ms", ms),
            Op::Tick => "tick".into(),
            Op::TickWait => "tick+wait".into(),
            Op::Shutdown => "shutdown".into(),
            Op::TotalWeight => "total_weight".into(),
            Op::WaitFlag { flag } => format!("wait_flag({})", flag),
            Op::RaiseFlag { flag } => format!("raise_flag({})", flag),
            Op::Quiesce => "quiesce".into(),
        }
    }
    pub fn is_write(&self) -> bool {
        matches!(self, Op::Put { .. } | Op::ProbedPut { .. } | Op::Upsert { .. } | Op::Delete { .. })
    }
    pub fn key(&self) -> Option<K> {
        match self {
            Op::Put { k, .. } | Op::ProbedPut { k, .. } | Op::Upsert { k, .. } | Op::Delete { k } | Op::Read { k, .. } => Some(*k),
            _ => None,
        }
    }
}

#[derive(Clone, Debug, PartialEq)]
pub enum Res {
    /// a write: Err (cache shutting down) or an acknowledgement; `sent` tells what was queued, if anything
    Write { err: bool, sent: Option<String>, ack_id: i64, immediate: Option<CommandStatus> },
    /// result of `ProbedPut`: what the read returned, then the write's result
    ProbedWrite { read: Option<V>, write: Box<Res> },
    Read(Option<V>),
    MultiRead(Vec<Option<V>>),
    Status(Vec<(usize, CommandStatus)>),
    Weight(i64),
    Unit,
    /// the call panicked on the caller's thread
    Panicked(String),
}

#[derive(Clone, Debug)]
pub struct Call {
    pub thread: usize, // usize::MAX-1 = init phase, usize::MAX = post phase
    pub idx: usize,
    pub op: Op,
    pub value: Option<V>, // token written by this call, if it carries one
    pub inv: u64,
    pub ret: u64,
    pub res: Res,
    pub now_ms_inv: u64,
    pub now_ms_ret: u64,
    /// lazy multi-key reads (the iterator variants): one (invocation, return) stamp pair per `next()`; each
    /// element is a read of its own. Empty for every other call.
    pub elems: Vec<(u64, u64)>,
}

thread_local! { static ELEM_STAMPS: std::cell::RefCell<Vec<(u64, u64)>> = std::cell::RefCell::new(Vec::new()); }

pub const PHASE_INIT: usize = usize::MAX - 1;
pub const PHASE_POST: usize = usize::MAX;

impl Call {
    pub fn short(&self) -> String {
        let t = match self.thread {
            PHASE_INIT => "init".to_string(),
            PHASE_POST => "post".to_string(),
            t => format!("T{}", t),
        };
        format!("[{}..{}] {}#{} {}{} -> {}", self.inv, self.ret, t, self.idx, self.op.short(), self.value.map(|v| format!(" val={}", v)).unwrap_or_default(), res_short(&self.res))
    }
}

pub fn res_short(r: &Res) -> String {
    match r {
        Res::Write { err, sent, immediate, .. } => {
            if *err {
                "Err".into()
            } else if let Some(s) = sent {
                format!("queued:{}", s)
            } else {
                format!("immediate:{:?}", immediate)
            }
        }
        Res::ProbedWrite { read, write } => format!("read={:?};{}", read, res_short(write)),
        Res::Read(v) => format!("{:?}", v),
        Res::MultiRead(v) => format!("{:?}", v),
        Res::Status(s) => format!("{:?}", s),
        Res::Weight(w) => format!("{}", w),
        Res::Unit => "()".into(),
        Res::Panicked(m) => format!("PANIC {}", m),
    }
}

/// One running cache with everything the harness owns around it.
pub struct Env {
    pub cache: Arc<Cache>,
    pub setup: Setup,
    pub now_ms: Arc<AtomicU64>,
    pub ticks: Mutex<Vec<crate::verif_rt::sync::crossbeam_channel::Sender<std::time::Instant>>>,
    pub ticks_sent: AtomicU64,
    /// task ids (sched backend): consumer, sweeper, worker
    pub bg: Vec<usize>,
    pub flags: Vec<AtomicU64>,
    pub next_token: AtomicU64,
}

pub fn build_config(setup: &Setup, clock: HarnessClock) -> crate::cache::config::Config<K, V> {
    let wf = setup.weight_fn;
    let hf = setup.hash_fn;
    ConfigBuilder::new(setup.counters, setup.capacity, setup.weight)
        .shards(setup.shards)
        .command_buffer_size(setup.queue)
        .access_pool_size(setup.pool)
        .access_buffer_size(setup.buffer)
        .clock(Box::new(clock))
        .weight_calculation_fn(Box::new(move |k: &K, _v: &V, ttl: bool| match wf {
            WeightFn::Const { c, ttl_extra } => c + if ttl { ttl_extra } else { 0 },
            WeightFn::ByKey { offset } => *k as i64 + offset,
        }))
        .key_hash_fn(Box::new(move |k: &K| match hf {
            HashFn::Identity => *k,
            HashFn::Constant(c) => c,
        }))
        .build()
}

impl Env {
    pub fn new(setup: Setup) -> Env {
        let now_ms = Arc::new(AtomicU64::new(setup.t0_ms));
        let clock = HarnessClock { now_ms: now_ms.clone(), is_point: world::cfg().clock_is_point };
        let config = build_config(&setup, clock);
        let (cache, bg) = world::constructing(|| CacheD::new(config));
        // the background threads run to their first blocking receive before anything is explored
        #[cfg(feature = "sched")]
        crate::verif_rt::sched::rt::settle(&bg);
        let ticks = world::take_tick_senders();
        Env {
            cache: Arc::new(cache),
            setup,
            now_ms,
            ticks: Mutex::new(ticks),
            ticks_sent: AtomicU64::new(0),
            bg,
            flags: (0..4).map(|_| AtomicU64::new(0)).collect(),
            next_token: AtomicU64::new(1),
        }
    }
    pub fn consumer_task(&self) -> usize {
        self.bg.first().copied().unwrap_or(usize::MAX)
    }
    pub fn sweeper_task(&self) -> usize {
        self.bg.get(1).copied().unwrap_or(usize::MAX)
    }
    pub fn worker_task(&self) -> usize {
        self.bg.get(2).copied().unwrap_or(usize::MAX)
    }
    pub fn now(&self) -> u64 {
        self.now_ms.load(SeqCst)
    }
    pub fn tick(&self) {
        let s = self.ticks.lock().unwrap().first().cloned();
        if let Some(s) = s {
            self.ticks_sent.fetch_add(1, SeqCst);
            let _ = s.send(std::time::Instant::now());
        }
    }
    pub fn tick_wait(&self) {
        self.tick();
        let n = self.ticks_sent.load(SeqCst);
        world::wait_event("sweep_done", n);
    }
    /// Drop the harness' handles so that every background thread can exit.
    pub fn teardown(self) {
        let Env { cache, ticks, .. } = self;
        drop(cache);
        drop(ticks);
    }
}

/// Token written by a call: unique per call, and `token % 1000 == key`.
pub fn token(thread: usize, idx: usize, k: K) -> V {
    let t = match thread {
        PHASE_INIT => 7,
        PHASE_POST => 8,
        t => t as u64 + 1,
    };
    t * 1_000_000 + (idx as u64 + 1) * 1000 + k
}
pub fn token_key(v: V) -> K {
    v % 1000
}

pub struct ThreadCtx {
    pub thread: usize,
    pub acks: Vec<(usize, Arc<CommandAcknowledgement>)>,
    pub calls: Vec<Call>,
}

fn catch<R>(f: impl FnOnce() -> R) -> Result<R, String> {
    std::panic::catch_unwind(std::panic::AssertUnwindSafe(f)).map_err(|e| {
        e.downcast_ref::<String>().cloned().or_else(|| e.downcast_ref::<&str>().map(|s| s.to_string())).unwrap_or_else(|| "?".into())
    })
}

pub fn block_on_status(ack: &Arc<CommandAcknowledgement>) -> CommandStatus {
    crate::harness::backend::block_on(ack.handle())
}

fn read_one(cache: &Cache, k: K, variant: ReadVariant) -> Option<V> {
    match variant {
        ReadVariant::Get => cache.get(&k),
        ReadVariant::GetRef => cache.get_ref(&k).map(|r| {
            let v = *r.value().value_ref();
            drop(r);
            v
        }),
        ReadVariant::MapGet => cache.map_get(&k, |v| v),
        ReadVariant::MapGetRef => cache.map_get_ref(&k, |sv| *sv.value_ref()),
        ReadVariant::MultiGet => cache.multi_get(vec![&k]).get(&k).cloned().flatten(),
        ReadVariant::MultiGetIterator => cache.multi_get_iterator(vec![&k]).next().flatten(),
        ReadVariant::MultiGetMapIterator => cache.multi_get_map_iterator(vec![&k], |v| v).next().flatten(),
    }
}

fn read_many(cache: &Cache, keys: &[K], variant: ReadVariant) -> Vec<Option<V>> {
    let refs: Vec<&K> = keys.iter().collect();
    match variant {
        ReadVariant::MultiGet => {
            let m = cache.multi_get(refs);
            keys.iter().map(|k| m.get(k).cloned().flatten()).collect()
        }
        ReadVariant::MultiGetIterator => {
            // consumed one `next()` at a time, each stamped: the iterator is lazy, every element is its own read
            let mut it = cache.multi_get_iterator(refs);
            let mut out: Vec<Option<V>> = Vec::new();
            let mut stamps = Vec::new();
            loop {
                let a = world::stamp();
                let n = it.next();
                let b = world::stamp();
                match n {
                    Some(v) => {
                        out.push(v);
                        stamps.push((a, b));
                    }
                    None => break,
                }
            }
            ELEM_STAMPS.with(|e| *e.borrow_mut() = stamps);
            while out.len() < keys.len() {
                out.push(None);
            }
            out
        }
        ReadVariant::MultiGetMapIterator => {
            let mut it = cache.multi_get_map_iterator(refs, |v| v);
            let mut out: Vec<Option<V>> = Vec::new();
            let mut stamps = Vec::new();
            loop {
                let a = world::stamp();
                let n = it.next();
                let b = world::stamp();
                match n {
                    Some(v) => {
                        out.push(v);
                        stamps.push((a, b));
                    }
                    None => break,
                }
            }
            ELEM_STAMPS.with(|e| *e.borrow_mut() = stamps);
            while out.len() < keys.len() {
                out.push(None);
            }
            out
        }
        v => keys.iter().map(|k| read_one(cache, *k, v)).collect(),
    }
}

/// What was queued by the call that just returned on this task (from the `command_sent` hook).
fn sent_since(mark: usize, ack: &Arc<CommandAcknowledgement>) -> Option<String> {
    let id = Arc::as_ptr(ack) as usize as i64;
    world::with(|w| w.events[mark..].iter().rev().find(|e| e.kind == "command_sent" && e.data.first() == Some(&id)).map(|e| e.text.clone()))
}

impl ThreadCtx {
    pub fn new(thread: usize) -> Self {
        ThreadCtx { thread, acks: Vec::new(), calls: Vec::new() }
    }

    /// Execute one operation against the cache and record it.
    pub fn exec(&mut self, env: &Env, idx: usize, op: &Op) {
        let cache = &env.cache;
        let inv = world::stamp();
        let now_ms_inv = env.now();
        let mark = world::with(|w| w.events.len());
        let mut value = None;
        let thread = self.thread;
        let res: Result<Res, String> = match op {
            Op::Put { k, w, ttl_ms } => {
                let v = token(thread, idx, *k);
                value = Some(v);
                catch(|| match (w, ttl_ms) {
                    (None, None) => cache.put(*k, v),
                    (Some(w), None) => cache.put_with_weight(*k, v, *w),
                    (None, Some(t)) => cache.put_with_ttl(*k, v, ttl_of(*t)),
                    (Some(w), Some(t)) => cache.put_with_weight_and_ttl(*k, v, *w, ttl_of(*t)),
                })
                .map(|r| self.write_res(idx, mark, r))
            }
            Op::ProbedPut { k, w, ttl_ms } => {
                let v = token(thread, idx, *k);
                value = Some(v);
                catch(|| {
                    let read = cache.get(k);
                    let r = match (w, ttl_ms) {
                        (None, None) => cache.put(*k, v),
                        (Some(w), None) => cache.put_with_weight(*k, v, *w),
                        (None, Some(t)) => cache.put_with_ttl(*k, v, ttl_of(*t)),
                        (Some(w), Some(t)) => cache.put_with_weight_and_ttl(*k, v, *w, ttl_of(*t)),
                    };
                    (read, r)
                })
                .map(|(read, r)| Res::ProbedWrite { read, write: Box::new(self.write_res(idx, mark, r)) })
            }
            Op::Upsert { k, value: has_value, w, ttl_ms, remove_ttl } => {
                let v = token(thread, idx, *k);
                if *has_value {
                    value = Some(v);
                }
                catch(|| {
                    let mut b = PutOrUpdateRequestBuilder::new(*k);
                    if *has_value {
                        b = b.value(v);
                    }
                    if let Some(w) = w {
                        b = b.weight(*w);
                    }
                    if let Some(t) = ttl_ms {
                        b = b.time_to_live(ttl_of(*t));
                    }
                    if *remove_ttl {
                        b = b.remove_time_to_live();
                    }
                    cache.put_or_update(b.build())
                })
                .map(|r| self.write_res(idx, mark, r))
            }
            Op::Delete { k } => catch(|| cache.delete(*k)).map(|r| self.write_res(idx, mark, r)),
            Op::Read { k, variant } => catch(|| read_one(cache, *k, *variant)).map(Res::Read),
            Op::MultiRead { keys, variant } => {
                ELEM_STAMPS.with(|e| e.borrow_mut().clear());
                catch(|| read_many(cache, keys, *variant)).map(Res::MultiRead)
            }
            Op::ReadAll { keys } => catch(|| {
                let mut out = Vec::new();
                for v in ALL_READ_VARIANTS.iter() {
                    if keys.len() > 1 && matches!(v, ReadVariant::MultiGet | ReadVariant::MultiGetIterator | ReadVariant::MultiGetMapIterator) {
                        out.extend(read_many(cache, keys, *v));
                    } else {
                        for k in keys.iter() {
                            out.push(read_one(cache, *k, *v));
                        }
                    }
                }
                out
            })
            .map(Res::MultiRead),
            Op::Await { call } => {
                let ack = self.acks.iter().find(|(c, _)| c == call).map(|(_, a)| a.clone());
                match ack {
                    Some(a) => catch(|| block_on_status(&a)).map(|s| Res::Status(vec![(*call, s)])),
                    None => Ok(Res::Status(vec![])),
                }
            }
            Op::PollOnce { call } => {
                let ack = self.acks.iter().find(|(c, _)| c == call).map(|(_, a)| a.clone());
                match ack {
                    Some(a) => catch(|| peek_status(&a)).map(|s| Res::Status(vec![(*call, s)])),
                    None => Ok(Res::Status(vec![])),
                }
            }
            Op::AwaitAll => {
                let acks = self.acks.clone();
                catch(|| acks.iter().map(|(c, a)| (*c, block_on_status(a))).collect::<Vec<_>>()).map(Res::Status)
            }
            Op::Advance { ms } => {
                if world::cfg().clock_is_point {
                    world::sched_point();
                }
                env.now_ms.fetch_add(*ms, SeqCst);
                Ok(Res::Unit)
            }
            Op::Tick => {
                env.tick();
                Ok(Res::Unit)
            }
            Op::TickWait => {
                env.tick_wait();
                Ok(Res::Unit)
            }
            Op::Shutdown => catch(|| cache.shutdown()).map(|_| Res::Unit),
            Op::TotalWeight => catch(|| cache.total_weight_used()).map(Res::Weight),
            Op::WaitFlag { flag } => {
                let f = *flag;
                crate::harness::backend::wait_flag(env, f);
                Ok(Res::Unit)
            }
            Op::RaiseFlag { flag } => {
                env.flags[*flag].store(1, SeqCst);
                world::record_event("flag", "", &[*flag as i64]);
                Ok(Res::Unit)
            }
            Op::Quiesce => {
                world::wait_commands_acked();
                Ok(Res::Unit)
            }
        };
        let res = match res {
            Ok(r) => r,
            Err(m) => Res::Panicked(m),
        };
        let ret = world::stamp();
        let now_ms_ret = env.now();
        let elems = if matches!(op, Op::MultiRead { .. }) { ELEM_STAMPS.with(|e| std::mem::take(&mut *e.borrow_mut())) } else { Vec::new() };
        self.calls.push(Call { thread, idx, op: op.clone(), value, inv, ret, res, now_ms_inv, now_ms_ret, elems });
    }

    fn write_res(&mut self, idx: usize, mark: usize, r: crate::cache::command::command_executor::CommandSendResult) -> Res {
        match r {
            Err(_) => Res::Write { err: true, sent: None, ack_id: 0, immediate: None },
            Ok(ack) => {
                let sent = sent_since(mark, &ack);
                let ack_id = Arc::as_ptr(&ack) as usize as i64;
                let immediate = if sent.is_none() { Some(peek_status(&ack)) } else { None };
                self.acks.push((idx, ack));
                Res::Write { err: false, sent, ack_id, immediate }
            }
        }
    }
}

/// Status of an acknowledgement created already completed (`accepted()` / `rejected()`), or of one
/// known to be complete. Polls once with a no-op waker; a single poll is not a blocking operation.
pub fn peek_status(ack: &Arc<CommandAcknowledgement>) -> CommandStatus {
    use std::future::Future;
    use std::task::{Context, Poll};
    let w = noop_waker();
    let mut cx = Context::from_waker(&w);
    let mut h = ack.handle();
    match std::pin::Pin::new(&mut h).poll(&mut cx) {
        Poll::Ready(s) => s,
        Poll::Pending => CommandStatus::Pending,
    }
}

pub fn noop_waker() -> std::task::Waker {
    use std::task::{RawWaker, RawWakerVTable, Waker};
    fn clone(_: *const ()) -> RawWaker {
        RawWaker::new(std::ptr::null(), &VT)
    }
    fn noop(_: *const ()) {}
    static VT: RawWakerVTable = RawWakerVTable::new(clone, noop, noop, noop);
    unsafe { Waker::from_raw(RawWaker::new(std::ptr::null(), &VT)) }
}

// ------------------------------------------------------------------------------------------------
// observations
// ------------------------------------------------------------------------------------------------
#[derive(Clone, Debug, PartialEq)]
pub struct Obs {
    pub now_ms: u64,
    /// (key, value, id, expiry ms, soft deleted), sorted by key
    pub store: Vec<(K, V, u64, Option<u64>, bool)>,
    /// (id, key, hash, weight), sorted by id
    pub weights: Vec<(u64, K, u64, i64)>,
    pub weight_used: i64,
    pub max_weight: i64,
    pub policy_max_weight: i64,
    /// (shard, id, expiry ms), sorted
    pub ttl: Vec<(usize, u64, u64)>,
    pub buffered: Vec<Vec<u64>>,
    pub stats: [u64; 10],
    pub hit_ratio: f64,
    pub lfu_total_increments: u64,
    /// sketch estimates (doorkeeper included) of keys 1..=4 under the configured hash function
    pub estimates: Vec<u8>,
}

pub const STATS: [StatsType; 10] = [
    StatsType::CacheHits,
    StatsType::CacheMisses,
    StatsType::KeysAdded,
    StatsType::KeysDeleted,
    StatsType::KeysUpdated,
    StatsType::KeysRejected,
    StatsType::WeightAdded,
    StatsType::WeightRemoved,
    StatsType::AccessAdded,
    StatsType::AccessDropped,
];
pub const HITS: usize = 0;
pub const MISSES: usize = 1;
pub const KEYS_ADDED: usize = 2;
pub const KEYS_DELETED: usize = 3;
pub const KEYS_UPDATED: usize = 4;
pub const KEYS_REJECTED: usize = 5;
pub const WEIGHT_ADDED: usize = 6;
pub const WEIGHT_REMOVED: usize = 7;
pub const ACCESS_ADDED: usize = 8;
pub const ACCESS_DROPPED: usize = 9;

pub fn observe(env: &Env) -> Obs {
    let cache = &env.cache;
    let mut store: Vec<_> = cache.verif_store().verif_snapshot().into_iter().map(|(k, v, id, e, d)| (k, v, id, e.map(ms_of), d)).collect();
    store.sort();
    let policy = cache.verif_admission_policy();
    let mut weights = policy.verif_cache_weight().verif_snapshot();
    weights.sort();
    let mut ttl: Vec<_> = cache.verif_ttl_ticker().verif_snapshot().into_iter().map(|(s, id, e)| (s, id, ms_of(e))).collect();
    ttl.sort();
    let summary = cache.stats_summary();
    let mut stats = [0u64; 10];
    for (i, s) in STATS.iter().enumerate() {
        stats[i] = summary.get(s).unwrap_or(0);
    }
    Obs {
        now_ms: env.now(),
        store,
        weights,
        weight_used: cache.total_weight_used(),
        // the limit the properties speak about is the *configured* cache weight; what the policy was given is
        // checked against it by `accounting_violations`
        max_weight: env.setup.weight,
        policy_max_weight: policy.verif_cache_weight().get_max_weight(),
        ttl,
        buffered: cache.verif_pool().verif_buffered(),
        stats,
        hit_ratio: summary.hit_ratio,
        lfu_total_increments: policy.verif_total_increments(),
        estimates: (1..=4u64).map(|k| policy.estimate(match env.setup.hash_fn { HashFn::Identity => k, HashFn::Constant(c) => c })).collect(),
    }
}

impl Obs {
    pub fn entry(&self, k: K) -> Option<&(K, V, u64, Option<u64>, bool)> {
        self.store.iter().find(|e| e.0 == k)
    }
    pub fn weight_of_id(&self, id: u64) -> Option<i64> {
        self.weights.iter().find(|e| e.0 == id).map(|e| e.3)
    }
    pub fn brief(&self) -> String {
        format!(
            "now={} store={:?} weights={:?} used={}/{} ttl={:?} buffered={:?} stats={:?}",
            self.now_ms.wrapping_sub(T0_MS) as i64,
            self.store.iter().map(|(k, v, id, e, d)| format!("{}=>{}#{}{}{}", k, v, id, e.map(|e| format!("@{}", e as i64 - T0_MS as i64)).unwrap_or_default(), if *d { "~del" } else { "" })).collect::<Vec<_>>(),
            self.weights.iter().map(|(id, k, _h, w)| format!("#{}:{}w{}", id, k, w)).collect::<Vec<_>>(),
            self.weight_used,
            self.max_weight,
            self.ttl.iter().map(|(s, id, e)| format!("s{}#{}@{}", s, id, *e as i64 - T0_MS as i64)).collect::<Vec<_>>(),
            self.buffered,
            self.stats
        )
    }
}

/// C05's invariant Q, shared by several properties: at quiescence the charged ids and the store
/// entries are in bijection (by key and id) and `weight_used` is the sum of the charged weights.
pub fn accounting_violations(o: &Obs) -> Vec<String> {
    let mut out = Vec::new();
    if o.policy_max_weight != o.max_weight {
        out.push(format!("the admission policy works with a cache weight of {} but {} was configured", o.policy_max_weight, o.max_weight));
    }
    let sum: i64 = o.weights.iter().map(|w| w.3).sum();
    if sum != o.weight_used {
        out.push(format!("weight_used={} but the charged weights sum to {}", o.weight_used, sum));
    }
    for (id, k, _h, w) in o.weights.iter() {
        match o.entry(*k) {
            Some(e) if e.2 == *id => {}
            Some(e) => out.push(format!("id #{} (key {}, weight {}) is charged but the store holds key {} under id #{}", id, k, w, k, e.2)),
            None => out.push(format!("id #{} (key {}, weight {}) is charged but the store does not hold key {}", id, k, w, k)),
        }
    }
    for (k, _v, id, _e, _d) in o.store.iter() {
        match o.weights.iter().find(|w| w.0 == *id) {
            None => out.push(format!("the store holds key {} under id #{} but no weight is charged for it", k, id)),
            Some(w) if w.1 != *k => out.push(format!("the store holds key {} under id #{} but that id is charged for key {}", k, id, w.1)),
            _ => {}
        }
    }
    let mut ids: Vec<u64> = o.store.iter().map(|e| e.2).collect();
    ids.sort();
    for w in ids.windows(2) {
        if w[0] == w[1] {
            out.push(format!("two stored keys share the key id #{}", w[0]));
        }
    }
    out
}

#[allow(unreachable_patterns)]
pub fn status_short(s: &CommandStatus) -> &'static str {
    match s {
        CommandStatus::Pending => "Pending",
        CommandStatus::Accepted => "Accepted",
        CommandStatus::ShuttingDown => "ShuttingDown",
        CommandStatus::Rejected(RejectionReason::KeyAlreadyExists) => "Rejected(KeyAlreadyExists)",
        CommandStatus::Rejected(RejectionReason::KeyDoesNotExist) => "Rejected(KeyDoesNotExist)",
        CommandStatus::Rejected(RejectionReason::KeyWeightIsGreaterThanCacheWeight) => "Rejected(KeyWeightIsGreaterThanCacheWeight)",
        CommandStatus::Rejected(RejectionReason::EnoughSpaceIsNotAvailableAndKeyFailedToEvictOthers) => "Rejected(NotEnoughSpace)",
        _ => "Rejected(?)",
    }
}

/// Signature of a panic on the caller's thread: which kind of call, and the head of the message.
pub fn caller_panic_signature(c: &Call, m: &str) -> String {
    let kind = match &c.op {
        Op::Put { w, ttl_ms, .. } => match (w, ttl_ms) {
            (None, None) => "put",
            (Some(_), None) => "put_with_weight",
            (None, Some(_)) => "put_with_ttl",
            (Some(_), Some(_)) => "put_with_weight_and_ttl",
        },
        Op::Upsert { .. } => "put_or_update",
        Op::Delete { .. } => "delete",
        Op::Read { .. } | Op::MultiRead { .. } | Op::ReadAll { .. } => "read",
        Op::Shutdown => "shutdown",
        _ => "other",
    };
    let head: String = m.lines().next().unwrap_or("").chars().take(70).collect();
    format!("panic:caller:{}:{}", kind, head)
}
