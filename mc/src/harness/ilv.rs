//! Engine `ilv`: run a small concurrent *program* (a few client threads with short operation lists,
//! optionally an environment thread moving the clock and ticking the sweeper) against the real cache
//! under every schedule the bounded-DFS explorer produces, and hand each complete execution to an oracle.

use super::kit::*;
use super::report::{Collector, ScenarioResult, Violation};
use crate::verif_rt::explore::{self, ExploreCfg};
use crate::verif_rt::world::{self, Event, WorldCfg};
use serde_json::{json, Value};
use std::sync::atomic::Ordering::SeqCst;
use std::sync::{Arc, Mutex};

#[derive(Clone, Copy, Debug, PartialEq, Eq)]
pub enum Role {
    Consumer,
    Sweeper,
    Worker,
}

#[derive(Clone, Copy, Debug, PartialEq, Eq)]
pub enum MonitorKind {
    None,
    /// `0 <= weight_used <= max` at every scheduling point where the lock is not write-held
    WeightBound,
    /// per thread, the acknowledgements of queued calls complete in submission order
    AckPrefix,
}

#[derive(Clone, Debug)]
pub struct Program {
    pub name: String,
    pub setup: Setup,
    pub world: WorldCfg,
    /// sequential prologue, each step followed by quiescence (outside the window)
    pub init: Vec<Op>,
    /// client threads, explored
    pub threads: Vec<Vec<Op>>,
    pub frozen: Vec<Role>,
    /// wait (inside the window) for: every sent command answered / every tick swept / every delivered batch applied
    pub quiesce_commands: bool,
    pub quiesce_sweeps: bool,
    pub quiesce_batches: bool,
    /// sequential epilogue (probes), each followed by quiescence, outside the window
    pub post: Vec<Op>,
    pub monitor: MonitorKind,
    /// larger program, explored in the thorough tier only
    pub thorough_only: bool,
    /// the program issues value-less upserts on a key that a racing delete / sweep may already have
    /// removed: the documented PutOrUpdateValueMissing caller panic is then a client error, not a finding
    pub tolerate_value_missing: bool,
}

impl Program {
    pub fn new(name: &str) -> Program {
        Program {
            name: name.to_string(),
            setup: Setup::default(),
            world: WorldCfg::default(),
            init: vec![],
            threads: vec![],
            frozen: vec![],
            quiesce_commands: true,
            quiesce_sweeps: true,
            quiesce_batches: true,
            post: vec![],
            monitor: MonitorKind::None,
            thorough_only: false,
            tolerate_value_missing: false,
        }
    }
    pub fn describe(&self) -> Value {
        json!({
            "setup": self.setup.describe(),
            "init": self.init.iter().map(|o| o.short()).collect::<Vec<_>>(),
            "threads": self.threads.iter().map(|t| t.iter().map(|o| o.short()).collect::<Vec<_>>()).collect::<Vec<_>>(),
            "post": self.post.iter().map(|o| o.short()).collect::<Vec<_>>(),
            "frozen": format!("{:?}", self.frozen),
            "monitor": format!("{:?}", self.monitor),
            "fair_rwlocks": self.world.fair_rwlocks,
        })
    }
    pub fn has_shutdown(&self) -> bool {
        self.threads.iter().flatten().chain(self.init.iter()).chain(self.post.iter()).any(|o| matches!(o, Op::Shutdown))
    }
    pub fn moves_clock_in_window(&self) -> bool {
        self.threads.iter().flatten().any(|o| matches!(o, Op::Advance { .. }))
    }
    /// Fill in the world flags that follow from the program text.
    pub fn finalize(mut self) -> Program {
        if self.has_shutdown() {
            self.world.lifecycle_atomics_are_points = true;
            self.quiesce_batches = false;
        }
        if self.moves_clock_in_window() {
            self.world.clock_is_point = true;
        }
        self
    }
}

/// One complete execution, as the oracle sees it.
pub struct Run {
    pub program: Arc<Program>,
    pub calls: Vec<Call>,
    pub events: Vec<Event>,
    pub obs_init: Obs,
    pub obs_end: Obs,
    pub obs_post: Obs,
    /// final status of every acknowledgement obtained: (thread, call idx, status)
    pub statuses: Vec<(usize, usize, crate::cache::command::CommandStatus)>,
    pub starved: bool,
    pub monitor_hits: Vec<String>,
    pub bg: Vec<usize>,
    pub window_close_stamp: u64,
}

impl Run {
    pub fn status_of(&self, thread: usize, idx: usize) -> Option<crate::cache::command::CommandStatus> {
        self.statuses.iter().find(|s| s.0 == thread && s.1 == idx).map(|s| s.2)
    }
    pub fn call(&self, thread: usize, idx: usize) -> Option<&Call> {
        self.calls.iter().find(|c| c.thread == thread && c.idx == idx)
    }
    pub fn history(&self) -> Vec<String> {
        let mut cs: Vec<&Call> = self.calls.iter().collect();
        cs.sort_by_key(|c| c.inv);
        cs.iter().map(|c| c.short()).collect()
    }
    pub fn events_brief(&self) -> Vec<String> {
        self.events.iter().map(|e| format!("{}@{}:{}{}{:?}", e.seq, e.task, e.kind, if e.text.is_empty() { "".into() } else { format!("({})", e.text) }, e.data.iter().take(8).collect::<Vec<_>>())).collect()
    }
}

pub struct Finding {
    pub clause: String,
    pub signature: String,
    pub detail: String,
}
impl Finding {
    pub fn new(clause: &str, signature: impl Into<String>, detail: impl Into<String>) -> Finding {
        Finding { clause: clause.to_string(), signature: signature.into(), detail: detail.into() }
    }
}

pub type Oracle = Arc<dyn Fn(&Run, &mut Vec<Finding>) + Send + Sync>;

fn quiesce_outside(env: &Env, p: &Program) {
    world::wait_commands_acked();
    let n = env.ticks_sent.load(SeqCst);
    world::wait_event("sweep_done", n);
    if !p.has_shutdown() {
        wait_batches(env);
    }
}

fn wait_batches(env: &Env) {
    let cache = env.cache.clone();
    world::wait_until_labelled(
        move |w| {
            let applied: i64 = w.events.iter().filter(|e| e.kind == "batch_applied").map(|e| e.data[0]).sum();
            let added = cache.stats_summary().get(&crate::cache::stats::StatsType::AccessAdded).unwrap_or(0) as i64;
            applied >= added
        },
        "access-batches",
        |_| "buffers were delivered to the access-count consumer but it never applied them".to_string(),
    );
}

fn run_once(p: &Arc<Program>, oracle: &Oracle, col: &Collector, bound: u32, sample_max: usize) {
    world::reset(p.world);
    let env = Arc::new(Env::new(p.setup));
    let monitor_hits: Arc<Mutex<Vec<String>>> = Arc::new(Mutex::new(Vec::new()));
    let ack_log: Arc<Mutex<Vec<(usize, usize, bool, Arc<crate::cache::command::acknowledgement::CommandAcknowledgement>)>>> = Arc::new(Mutex::new(Vec::new()));

    // ---- prologue
    let mut init = ThreadCtx::new(PHASE_INIT);
    for (i, op) in p.init.iter().enumerate() {
        init.exec(&env, i, op);
        quiesce_outside(&env, p);
    }
    let obs_init = observe(&env);

    // ---- window
    for r in &p.frozen {
        let t = match r {
            Role::Consumer => env.consumer_task(),
            Role::Sweeper => env.sweeper_task(),
            Role::Worker => env.worker_task(),
        };
        explore::freeze(t);
    }
    match p.monitor {
        MonitorKind::None => {}
        MonitorKind::WeightBound => {
            let e = env.clone();
            let hits = monitor_hits.clone();
            explore::set_monitor(Box::new(move || {
                let cw = e.cache.verif_admission_policy().verif_cache_weight();
                if let Some(w) = cw.verif_peek_weight_used() {
                    if w < 0 || w > cw.get_max_weight() {
                        let mut h = hits.lock().unwrap();
                        if h.is_empty() {
                            let during = world::with(|w| w.events.iter().rev().find(|e| e.kind == "worker_dequeued").map(|e| e.text.clone()).unwrap_or_default());
                            h.push(format!("weight_used={} outside [0,{}] at tick {} during={}", w, cw.get_max_weight(), explore::tick(), during));
                        }
                    }
                }
            }));
        }
        MonitorKind::AckPrefix => {
            let log = ack_log.clone();
            let hits = monitor_hits.clone();
            explore::set_monitor(Box::new(move || {
                let log = log.lock().unwrap();
                let mut threads: Vec<usize> = log.iter().map(|e| e.0).collect();
                threads.sort();
                threads.dedup();
                for t in threads {
                    let mut seen_not_done: Option<usize> = None;
                    for (_, idx, queued, ack) in log.iter().filter(|e| e.0 == t) {
                        if !*queued {
                            continue;
                        }
                        let done = ack.handle().verif_is_done();
                        if !done && seen_not_done.is_none() {
                            seen_not_done = Some(*idx);
                        }
                        if done {
                            if let Some(earlier) = seen_not_done {
                                let mut h = hits.lock().unwrap();
                                if h.is_empty() {
                                    h.push(format!("thread {}: acknowledgement of call #{} completed while that of the earlier queued call #{} has not", t, idx, earlier));
                                }
                            }
                        }
                    }
                }
            }));
        }
    }
    explore::window(true);
    let mut handles = Vec::new();
    for (t, ops) in p.threads.iter().enumerate() {
        let env = env.clone();
        let ops = ops.clone();
        let log = ack_log.clone();
        handles.push(super::backend::spawn(move || {
            let mut ctx = ThreadCtx::new(t);
            for (i, op) in ops.iter().enumerate() {
                let before = ctx.acks.len();
                ctx.exec(&env, i, op);
                if ctx.acks.len() > before {
                    let (idx, ack) = ctx.acks.last().unwrap().clone();
                    let queued = matches!(ctx.calls.last().map(|c| &c.res), Some(Res::Write { sent: Some(_), .. }));
                    log.lock().unwrap().push((t, idx, queued, ack));
                }
            }
            ctx
        }));
    }
    let mut ctxs: Vec<ThreadCtx> = Vec::new();
    for h in handles {
        match h.join() {
            Ok(c) => ctxs.push(c),
            Err(_) => panic!("client thread panicked outside a guarded call"),
        }
    }
    let starved_before_release = explore::starved();
    explore::unfreeze_all();
    if p.quiesce_commands {
        world::wait_commands_acked();
    }
    if p.quiesce_sweeps {
        let n = env.ticks_sent.load(SeqCst);
        world::wait_event("sweep_done", n);
    }
    if p.quiesce_batches {
        wait_batches(&env);
    }
    explore::window(false);
    let window_close_stamp = world::stamp();
    let obs_end = observe(&env);

    // ---- epilogue
    let mut post = ThreadCtx::new(PHASE_POST);
    for (i, op) in p.post.iter().enumerate() {
        post.exec(&env, i, op);
        quiesce_outside(&env, p);
    }
    let obs_post = observe(&env);

    let mut calls: Vec<Call> = Vec::new();
    let mut statuses = Vec::new();
    for ctx in std::iter::once(&init).chain(ctxs.iter()).chain(std::iter::once(&post)) {
        calls.extend(ctx.calls.iter().cloned());
        for (idx, ack) in &ctx.acks {
            statuses.push((ctx.thread, *idx, peek_status(ack)));
        }
    }
    let run = Run {
        program: p.clone(),
        calls,
        events: world::events(),
        obs_init,
        obs_end,
        obs_post,
        statuses,
        starved: starved_before_release,
        monitor_hits: monitor_hits.lock().unwrap().clone(),
        bg: env.bg.clone(),
        window_close_stamp,
    };

    if !explore::is_probe() {
        let mut findings = Vec::new();
        oracle(&run, &mut findings);
        for c in run.calls.iter() {
            if let Res::Panicked(m) = &c.res {
                if run.program.tolerate_value_missing && matches!(c.op, Op::Upsert { value: false, .. }) && m.contains("PutOrUpdate has resulted in a put request, value must be specified") {
                    continue;
                }
                // a request on a key that the sweeper / an eviction removed during the window is its own situation
                // (the key's weight entry and its store entry do not disappear together)
                let mut sig = caller_panic_signature(c, m);
                if let (Op::Upsert { k, .. }, false) = (&c.op, run.program.threads.iter().flatten().any(|o| matches!(o, Op::Delete { k: d } if Some(*d) == c.op.key()))) {
                    if run.obs_init.entry(*k).is_some() && run.obs_end.entry(*k).is_none() {
                        sig.push_str(":key-removed-concurrently");
                    }
                }
                findings.push(Finding::new("caller-panic", sig, format!("{} panicked on the caller's thread: {}", c.op.short(), m)));
            }
        }
        col.evaluated();
        // outcome = what the clients saw + where the cache ended up
        let mut outcome = String::new();
        for c in run.calls.iter().filter(|c| c.thread < PHASE_INIT) {
            outcome.push_str(&format!("T{}#{}={};", c.thread, c.idx, res_short(&c.res)));
        }
        for s in &run.statuses {
            if s.0 < PHASE_INIT {
                outcome.push_str(&format!("ack{}#{}={};", s.0, s.1, status_short(&s.2)));
            }
        }
        outcome.push_str(&format!(
            "store={:?};w={};acc={}/{}/{}",
            run.obs_end.store.iter().map(|e| (e.0, e.1, e.4)).collect::<Vec<_>>(),
            run.obs_end.weight_used,
            run.obs_end.stats[ACCESS_ADDED],
            run.obs_end.stats[ACCESS_DROPPED],
            run.obs_end.buffered.iter().map(|b| b.len()).sum::<usize>()
        ));
        col.outcome(outcome.clone());
        // distinct call/return histories in which something overlapped
        let client: Vec<&Call> = run.calls.iter().filter(|c| c.thread < PHASE_INIT).collect();
        let mut overlap = false;
        for a in &client {
            for b in &client {
                if a.thread != b.thread && a.inv < b.ret && b.inv < a.ret {
                    overlap = true;
                }
            }
            if run.events.iter().any(|e| e.seq > a.inv && e.seq < a.ret && e.task != usize::MAX && !run_task_is_client(&run, e)) {
                overlap = true;
            }
        }
        if overlap {
            let mut order: Vec<(u64, String)> = Vec::new();
            for c in &client {
                order.push((c.inv, format!("i{}.{}", c.thread, c.idx)));
                order.push((c.ret, format!("r{}.{}={}", c.thread, c.idx, res_short(&c.res))));
            }
            order.sort();
            let key: String = order.into_iter().map(|o| o.1).collect::<Vec<_>>().join(" ");
            col.nontrivial(&key);
        }
        col.sample(json!({"schedule": explore::choices(), "history": run.history(), "end_state": run.obs_end.brief(), "options_per_step": explore::frame_widths()}), sample_max);
        for f in findings {
            let choices = explore::choices();
            col.violation(Violation {
                clause: f.clause,
                signature: f.signature,
                detail: format!("{} | history: {:?} | end: {}", f.detail, run.history(), run.obs_end.brief()),
                replay: json!({"kind": "schedule", "bound": bound, "choices": choices, "history": run.history(), "events": run.events_brief()}),
                cost: choices.len(),
            });
        }
    }

    // ---- tear-down: every background thread must be able to exit
    drop(run);
    drop(ctxs);
    drop(init);
    drop(post);
    drop(ack_log);
    match Arc::try_unwrap(env) {
        Ok(env) => env.teardown(),
        Err(_) => panic!("harness bug: environment still shared at tear-down"),
    }
    world::finish();
}

fn run_task_is_client(run: &Run, e: &Event) -> bool {
    // background tasks are the ones spawned by the cache constructor
    !run.bg.contains(&e.task)
}

#[derive(Clone)]
pub struct IlvCfg {
    pub bounds: Vec<u32>,
    pub workers: usize,
    pub split_depth: usize,
    pub time_cap_s: Option<f64>,
    pub max_executions: Option<u64>,
}

impl IlvCfg {
    pub fn new(bound: u32) -> IlvCfg {
        IlvCfg { bounds: vec![bound], workers: 1, split_depth: 5, time_cap_s: None, max_executions: None }
    }
}

/// The exploration budget of a program per tier: iterative preemption bounds by number of client threads.
/// A time cap interrupts the search *between* bounds' executions; it is reported, never hidden.
pub fn tier_cfg(ctx: &Ctx, client_threads: usize) -> IlvCfg {
    let quick = ctx.quick();
    let bounds: Vec<u32> = match (quick, client_threads) {
        (true, 0..=1) => vec![0, 1, 2, 3],
        (true, 2) => vec![0, 1, 2],
        (true, _) => vec![0, 1],
        (false, 0..=1) => vec![0, 1, 2, 3, 4, 5, 6, 8],
        (false, 2) => vec![0, 1, 2, 3, 4, 5, 6],
        (false, _) => vec![0, 1, 2, 3, 4],
    };
    IlvCfg { bounds, workers: ctx.workers, split_depth: 0, time_cap_s: Some(ctx.scenario_cap_s), max_executions: None }
}

/// Explore one program for each preemption bound in turn (the evidence reports the largest completed).
pub fn run_program(p: Program, oracle: Oracle, cfg: &IlvCfg) -> ScenarioResult {
    let p = Arc::new(p.finalize());
    let pp = p.clone();
    let suspicious_if_single = p.threads.len() > 1;
    explore_bounds(&p.name, p.describe(), cfg, suspicious_if_single, move |col, bound| {
        let (pp, oo) = (pp.clone(), oracle.clone());
        Arc::new(move || run_once(&pp, &oo, &col, bound, 2))
    })
}

/// The bound loop shared by programs and hand-written scenario bodies. `make_body(collector, bound)`
/// returns the closure executed once per schedule; it reports through the collector.
pub fn explore_bounds(
    name: &str,
    params: Value,
    cfg: &IlvCfg,
    suspicious_if_single: bool,
    make_body: impl Fn(Collector, u32) -> Arc<dyn Fn() + Send + Sync>,
) -> ScenarioResult {
    let t0 = std::time::Instant::now();
    let mut total = explore::Stats::default();
    let mut completed: Option<u32> = None;
    let mut capped: Option<String> = None;
    let col = Collector::new();
    let mut last_col = Collector::new();
    for &b in &cfg.bounds {
        let c = Collector::new();
        let body = make_body(c.clone(), b);
        let remaining = cfg.time_cap_s.map(|s| (s - t0.elapsed().as_secs_f64()).max(0.5));
        let ecfg = ExploreCfg {
            bound: b,
            workers: cfg.workers,
            split_depth: cfg.split_depth,
            max_executions: cfg.max_executions,
            time_cap: remaining.map(std::time::Duration::from_secs_f64),
            max_failures: 6,
            stop_flag: None,
        };
        let st = explore::explore(&ecfg, body);
        // failures (deadlock / panic on a task) are violations whatever the property
        for f in &st.failures {
            let first_line = f.message.clone();
            let (clause, signature) = if f.kind == "deadlock" {
                ("deadlock".to_string(), format!("deadlock:{}", normalize_deadlock(&first_line)))
            } else {
                ("panic".to_string(), format!("panic:{}", normalize_panic(&first_line)))
            };
            c.violation(Violation {
                clause,
                signature,
                detail: format!("{} in scenario {}", first_line, name),
                replay: json!({"kind": "schedule", "bound": b, "choices": f.choices}),
                cost: f.choices.len(),
            });
        }
        let was_capped = st.capped;
        // a larger bound subsumes the smaller ones: report the last bound's counts
        total = st.clone();
        last_col = c.clone();
        {
            let src = c.0.lock().unwrap();
            let mut dst = col.0.lock().unwrap();
            for (k, v) in src.violations.iter() {
                dst.violations.entry(k.clone()).or_insert(v.clone());
            }
        }
        if was_capped {
            capped = Some(format!("bound {} interrupted after {} executions ({:.1}s)", b, st.executions, st.wall_s));
            break;
        }
        completed = Some(b);
        if col.has_violations() {
            break; // the first counterexample has the fewest preemptions
        }
    }
    let lc = last_col.0.lock().unwrap();
    let violations: Vec<(Violation, u64)> = col.0.lock().unwrap().violations.values().cloned().collect();
    let distinct_outcomes = lc.outcomes.len() as u64;
    // vacuity warning: several threads, many executions, yet no two calls ever overlapped and nothing varied
    let suspicious = if suspicious_if_single && distinct_outcomes <= 1 && lc.nontrivial.is_empty() && total.executions > 1 { Some("one outcome and no overlapping history from many executions: nothing collided?".to_string()) } else { None };
    ScenarioResult {
        name: name.to_string(),
        engine: "ilv",
        params,
        evaluations: total.executions,
        states: total.nodes,
        transitions: total.steps_window,
        validated: total.executions,
        distinct_nontrivial: lc.nontrivial.len() as u64,
        distinct_outcomes,
        outcomes: lc.outcomes.clone(),
        bound: completed,
        depth: Some(total.max_depth),
        exhaustive: capped.is_none(),
        capped,
        samples: lc.samples.clone(),
        violations,
        wall_s: t0.elapsed().as_secs_f64(),
        counters: lc.counters.clone(),
        suspicious,
    }
}

/// Replay one schedule twice; both runs must produce the same observations.
pub fn replay_program(p: Program, oracle: Oracle, choices: Vec<u32>) -> Result<Vec<(String, String, String)>, String> {
    let p = Arc::new(p.finalize());
    let mut seen: Vec<Vec<(String, String, String)>> = Vec::new();
    let mut outcomes: Vec<Vec<String>> = Vec::new();
    for _ in 0..2 {
        let c = Collector::new();
        let (pp, oo, cc) = (p.clone(), oracle.clone(), c.clone());
        let body: Arc<dyn Fn() + Send + Sync> = Arc::new(move || run_once(&pp, &oo, &cc, 0, 1));
        match explore::replay(choices.clone(), body) {
            Ok(()) => {}
            Err(f) => {
                if f.kind == "divergence" {
                    return Err(format!("replay diverged: {}", f.message));
                }
                let sig = if f.kind == "deadlock" { format!("deadlock:{}", normalize_deadlock(&f.message)) } else { format!("panic:{}", normalize_panic(&f.message)) };
                seen.push(vec![(f.kind.to_string(), sig, f.message.clone())]);
                outcomes.push(vec![f.message.clone()]);
                continue;
            }
        }
        let g = c.0.lock().unwrap();
        seen.push(g.violations.values().map(|(v, _)| (v.clause.clone(), v.signature.clone(), v.detail.clone())).collect());
        outcomes.push(g.outcomes.keys().cloned().collect());
    }
    if outcomes[0] != outcomes[1] {
        return Err(format!("the same schedule produced different observations: {:?} vs {:?}", outcomes[0], outcomes[1]));
    }
    Ok(seen.remove(0))
}

pub fn normalize_deadlock(msg: &str) -> String {
    // "deadlock[<what the harness waited for>] ..." -> keep the tag; ids and addresses vary
    if let Some(rest) = msg.strip_prefix("deadlock[") {
        if let Some(end) = rest.find(']') {
            return format!("while-waiting-for-{}", &rest[..end]);
        }
    }
    "no-task-enabled".to_string()
}

pub fn normalize_panic(msg: &str) -> String {
    // message @ file:line -> keep message head and file (line numbers move with unrelated edits)
    let (m, loc) = match msg.rsplit_once(" @ ") {
        Some((m, l)) => (m, l),
        None => (msg, ""),
    };
    let file = loc.rsplit_once(':').map(|x| x.0).unwrap_or(loc);
    let file = file.rsplit('/').take(2).collect::<Vec<_>>().into_iter().rev().collect::<Vec<_>>().join("/");
    let head: String = m.chars().take(70).collect();
    format!("background:{}@{}", head, file)
}

// ------------------------------------------------------------------------------------------------
// glue: programs as registered scenarios
// ------------------------------------------------------------------------------------------------
use crate::props::{Ctx, ReplayOutcome, Scenario};

pub fn choices_of(doc: &Value) -> Result<Vec<u32>, String> {
    doc["replay"]["choices"]
        .as_array()
        .ok_or_else(|| "replay file has no schedule".to_string())
        .map(|a| a.iter().map(|x| x.as_u64().unwrap_or(0) as u32).collect())
}

/// Drop the programs reserved for the thorough tier when running the quick one.
pub fn for_tier(ps: Vec<Program>, quick: bool) -> Vec<Program> {
    ps.into_iter().filter(|p| !(quick && p.thorough_only)).collect()
}

/// A program explored with the bounds chosen per tier by `cfg_of`.
pub fn program_scenario(p: Program, oracle: Oracle, cfg_of: impl Fn(&Ctx) -> IlvCfg + Send + Sync + 'static) -> Scenario {
    let name = p.name.clone();
    let (p1, o1) = (p.clone(), oracle.clone());
    let (p2, o2) = (p, oracle);
    Scenario {
        name,
        run: Box::new(move |ctx| run_program(p1.clone(), o1.clone(), &cfg_of(ctx))),
        replay: Box::new(move |doc| -> ReplayOutcome {
            let choices = choices_of(doc)?;
            replay_program(p2.clone(), o2.clone(), choices)
        }),
    }
}

/// Replay for hand-written bodies: run the body under the recorded schedule, twice.
pub fn replay_body(make_body: &dyn Fn(Collector, u32) -> Arc<dyn Fn() + Send + Sync>, choices: Vec<u32>) -> ReplayOutcome {
    let mut seen: Vec<Vec<(String, String, String)>> = Vec::new();
    let mut outcomes: Vec<Vec<String>> = Vec::new();
    for _ in 0..2 {
        let c = Collector::new();
        let body = make_body(c.clone(), 0);
        match explore::replay(choices.clone(), body) {
            Ok(()) => {}
            Err(f) => {
                if f.kind == "divergence" {
                    return Err(format!("replay diverged: {}", f.message));
                }
                let sig = if f.kind == "deadlock" { format!("deadlock:{}", normalize_deadlock(&f.message)) } else { format!("panic:{}", normalize_panic(&f.message)) };
                seen.push(vec![(f.kind.to_string(), sig, f.message.clone())]);
                outcomes.push(vec![f.message.clone()]);
                continue;
            }
        }
        let g = c.0.lock().unwrap();
        seen.push(g.violations.values().map(|(v, _)| (v.clause.clone(), v.signature.clone(), v.detail.clone())).collect());
        outcomes.push(g.outcomes.keys().cloned().collect());
    }
    if outcomes[0] != outcomes[1] {
        return Err(format!("the same schedule produced different observations: {:?} vs {:?}", outcomes[0], outcomes[1]));
    }
    Ok(seen.remove(0))
}

pub fn body_scenario(
    name: &str,
    params: Value,
    suspicious_if_single: bool,
    make_body: impl Fn(Collector, u32) -> Arc<dyn Fn() + Send + Sync> + Send + Sync + Clone + 'static,
    cfg_of: impl Fn(&Ctx) -> IlvCfg + Send + Sync + 'static,
) -> Scenario {
    let n1 = name.to_string();
    let mb1 = make_body.clone();
    let mb2 = make_body;
    Scenario {
        name: name.to_string(),
        run: Box::new(move |ctx| explore_bounds(&n1, params.clone(), &cfg_of(ctx), suspicious_if_single, mb1.clone())),
        replay: Box::new(move |doc| -> ReplayOutcome {
            let choices = choices_of(doc)?;
            replay_body(&mb2, choices)
        }),
    }
}

/// Report a finding from a hand-written body (schedule = the choices made so far).
pub fn report(col: &Collector, bound: u32, f: Finding, extra: Value) {
    let choices = explore::choices();
    col.violation(Violation {
        clause: f.clause,
        signature: f.signature,
        detail: f.detail,
        replay: json!({"kind": "schedule", "bound": bound, "choices": choices, "observed": extra}),
        cost: choices.len(),
    });
}
