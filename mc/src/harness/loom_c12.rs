//! C12 under loom: `done(status)` on one thread against 1-2 polls (same or changing waker) on another, every
//! interleaving *and every behaviour the C11 memory model allows* for the flag, the status mutex and the waker
//! mutex of the real `CommandAcknowledgement`.
use crate::cache::command::acknowledgement::CommandAcknowledgement;
use crate::cache::command::{CommandStatus, RejectionReason};
use std::future::Future;
use std::sync::atomic::{AtomicUsize, Ordering::SeqCst};
use std::sync::Arc;
use std::task::{Context, Poll, Wake, Waker};

struct CountingWaker(AtomicUsize);
impl Wake for CountingWaker {
    fn wake(self: Arc<Self>) {
        self.0.fetch_add(1, SeqCst);
    }
    fn wake_by_ref(self: &Arc<Self>) {
        self.0.fetch_add(1, SeqCst);
    }
}

fn poll_once(ack: &Arc<CommandAcknowledgement>, w: &Arc<CountingWaker>) -> Poll<CommandStatus> {
    let waker = Waker::from(w.clone());
    let mut cx = Context::from_waker(&waker);
    let mut h = ack.handle();
    std::pin::Pin::new(&mut h).poll(&mut cx)
}

/// One scenario; returns (executions explored, first violation message).
pub fn scenario(status: CommandStatus, polls: usize, change_waker: bool) -> (u64, Option<String>) {
    let count = Arc::new(AtomicUsize::new(0));
    let c2 = count.clone();
    let mut b = loom::model::Builder::new();
    b.preemption_bound = None; // the harness is tiny: explore everything
    let r = std::panic::catch_unwind(std::panic::AssertUnwindSafe(|| {
        b.check(move || {
            c2.fetch_add(1, SeqCst);
            let ack = CommandAcknowledgement::new();
            let a = ack.clone();
            let t = loom::thread::spawn(move || a.done(status));
            let wakers: Vec<Arc<CountingWaker>> = (0..polls).map(|_| Arc::new(CountingWaker(AtomicUsize::new(0)))).collect();
            let mut last_pending: Option<(usize, usize)> = None; // (waker index, wakes seen before that poll)
            let mut seen_ready = false;
            for i in 0..polls {
                let wi = if change_waker { i } else { 0 };
                let before = wakers[wi].0.load(SeqCst);
                match poll_once(&ack, &wakers[wi]) {
                    Poll::Ready(s) => {
                        assert!(s != CommandStatus::Pending, "poll returned Ready(Pending)");
                        assert!(s == status, "poll returned a status the command did not end with");
                        seen_ready = true;
                        last_pending = None;
                    }
                    Poll::Pending => {
                        assert!(!seen_ready, "Pending after Ready");
                        last_pending = Some((wi, before));
                    }
                }
            }
            t.join().unwrap();
            // after done() returned: a poll yields the real status, and the most recent pending poll's waker was woken
            let probe = Arc::new(CountingWaker(AtomicUsize::new(0)));
            if let Some((wi, before)) = last_pending {
                assert!(wakers[wi].0.load(SeqCst) > before, "lost wake-up: the most recent poll returned Pending and its waker was never woken");
            }
            match poll_once(&ack, &probe) {
                Poll::Ready(s) => assert!(s == status, "final poll returned a wrong status"),
                Poll::Pending => panic!("the acknowledgement never completes"),
            }
        });
    }));
    let n = count.load(SeqCst) as u64;
    match r {
        Ok(()) => (n, None),
        Err(e) => {
            let m = e.downcast_ref::<String>().cloned().or_else(|| e.downcast_ref::<&str>().map(|s| s.to_string())).unwrap_or_else(|| "?".into());
            (n, Some(m.lines().next().unwrap_or("").to_string()))
        }
    }
}

pub fn run_all() -> Vec<(String, u64, Option<String>)> {
    let mut out = Vec::new();
    for (sn, st) in [("Accepted", CommandStatus::Accepted), ("Rejected", CommandStatus::Rejected(RejectionReason::KeyDoesNotExist)), ("ShuttingDown", CommandStatus::ShuttingDown)] {
        for polls in 1..=2usize {
            for change in [false, true] {
                if change && polls < 2 {
                    continue;
                }
                let (n, v) = scenario(st, polls, change);
                out.push((format!("loom/ack/{}/polls{}{}", sn, polls, if change { "/waker-changes" } else { "" }), n, v));
            }
        }
    }
    out
}
