//! One module per property: the scenarios / sequences / tables that decide it and their oracles.
use crate::harness::report::{PropertyRun, ScenarioResult};
use serde_json::Value;

#[derive(Clone, Copy, Debug, PartialEq, Eq)]
pub enum Tier {
    Quick,
    Thorough,
}

#[derive(Clone, Debug)]
pub struct Ctx {
    pub tier: Tier,
    pub seed: u64,
    pub workers: usize,
    /// wall-clock budget for the whole property, seconds (caps are reported, never hidden)
    pub budget_s: f64,
    /// wall-clock cap per scenario (budget / number of scenarios, set by run_property)
    pub scenario_cap_s: f64,
}

impl Ctx {
    pub fn quick(&self) -> bool {
        self.tier == Tier::Quick
    }
}

pub type ReplayOutcome = Result<Vec<(String, String, String)>, String>;

pub struct Scenario {
    pub name: String,
    pub run: Box<dyn Fn(&Ctx) -> ScenarioResult + Send + Sync>,
    /// re-run exactly the recorded schedule / history / input; returns the findings it reproduces
    pub replay: Box<dyn Fn(&Value) -> ReplayOutcome + Send + Sync>,
}

pub struct PropertyDef {
    pub id: &'static str,
    pub technique: &'static str,
    pub rule: &'static str,
    pub assumptions: Vec<&'static str>,
    pub scenarios: Vec<Scenario>,
}

pub mod common;
pub mod c14;
#[cfg(feature = "sched")]
pub mod c09;
#[cfg(feature = "sched")]
pub mod c08;
#[cfg(feature = "sched")]
pub mod c17;
#[cfg(feature = "sched")]
pub mod c06;
#[cfg(feature = "sched")]
pub mod c15;
#[cfg(feature = "sched")]
pub mod c18;
#[cfg(feature = "sched")]
pub mod c11;
#[cfg(feature = "sched")]
pub mod c13;
#[cfg(feature = "sched")]
pub mod c03;
#[cfg(feature = "sched")]
pub mod c10;
#[cfg(feature = "sched")]
pub mod lin;
#[cfg(feature = "sched")]
pub mod c02;
#[cfg(feature = "sched")]
pub mod c04;
#[cfg(feature = "sched")]
pub mod c01;
#[cfg(feature = "sched")]
pub mod c07;
#[cfg(feature = "sched")]
pub mod c16;
#[cfg(feature = "sched")]
pub mod c05;
#[cfg(feature = "sched")]
pub mod c12;

pub fn property(id: &str, ctx: &Ctx) -> Option<PropertyDef> {
    match id {
        #[cfg(feature = "sched")]
        "C05" => Some(c05::def(ctx)),
        #[cfg(feature = "sched")]
        "C12" => Some(c12::def(ctx)),
        #[cfg(feature = "sched")]
        "C09" => Some(c09::def(ctx)),
        #[cfg(feature = "sched")]
        "C08" => Some(c08::def(ctx)),
        #[cfg(feature = "sched")]
        "C17" => Some(c17::def(ctx)),
        #[cfg(feature = "sched")]
        "C06" => Some(c06::def(ctx)),
        "C14" => Some(c14::def(ctx)),
        #[cfg(feature = "sched")]
        "C15" => Some(c15::def(ctx)),
        #[cfg(feature = "sched")]
        "C18" => Some(c18::def(ctx)),
        #[cfg(feature = "sched")]
        "C11" => Some(c11::def(ctx)),
        #[cfg(feature = "sched")]
        "C13" => Some(c13::def(ctx)),
        #[cfg(feature = "sched")]
        "C03" => Some(c03::def(ctx)),
        #[cfg(feature = "sched")]
        "C10" => Some(c10::def(ctx)),
        #[cfg(feature = "sched")]
        "C02" => Some(c02::def(ctx)),
        #[cfg(feature = "sched")]
        "C04" => Some(c04::def(ctx)),
        #[cfg(feature = "sched")]
        "C01" => Some(c01::def(ctx)),
        #[cfg(feature = "sched")]
        "C07" => Some(c07::def(ctx)),
        #[cfg(feature = "sched")]
        "C16" => Some(c16::def(ctx)),
        _ => None,
    }
}

pub const ALL: [&str; 18] = ["C01", "C02", "C03", "C04", "C05", "C06", "C07", "C08", "C09", "C10", "C11", "C12", "C13", "C14", "C15", "C16", "C17", "C18"];

pub const COMMON_ASSUMPTIONS: [&str; 4] = [
    "sequentially consistent executions; every lock/atomic/channel/spawn/join operation of the real code is a scheduling point of the controlled scheduler",
    "the synchronisation shims (verif_rt::sched::sync) model parking_lot, dashmap 5.4 and crossbeam-channel faithfully for the API subset used",
    "bounds: the listed client programs, keys, weights and preemption bound; nothing is claimed beyond them",
    "stats counters and the id generator stay on std atomics (single RMWs that order nothing else; DESIGN 3.5)",
];

pub fn run_property(def: PropertyDef, ctx: &Ctx) -> PropertyRun {
    let t0 = std::time::Instant::now();
    let mut results = Vec::new();
    let mut order: Vec<usize> = (0..def.scenarios.len()).collect();
    if ctx.seed != 0 {
        // VERIF_SEED only permutes the order in which scenarios are explored
        let mut x = ctx.seed.wrapping_mul(0x9E3779B97F4A7C15) | 1;
        for i in (1..order.len()).rev() {
            x ^= x << 13;
            x ^= x >> 7;
            x ^= x << 17;
            order.swap(i, (x % (i as u64 + 1)) as usize);
        }
    }
    let mut ctx = ctx.clone();
    ctx.scenario_cap_s = (ctx.budget_s / def.scenarios.len().max(1) as f64).max(if ctx.quick() { 6.0 } else { 60.0 });
    let ctx = &ctx;
    for i in order {
        let s = &def.scenarios[i];
        let r = (s.run)(ctx);
        eprintln!(
            "  {:<44} {:>4} evals={:<9} states={:<10} outcomes={:<4} nontrivial={:<6} bound={:?} viol={} {:.1}s{}",
            r.name,
            r.engine,
            r.evaluations,
            r.states,
            r.distinct_outcomes,
            r.distinct_nontrivial,
            r.bound,
            r.violations.len(),
            r.wall_s,
            r.capped.as_ref().map(|c| format!(" CAP: {}", c)).unwrap_or_default()
        );
        results.push(r);
    }
    PropertyRun {
        property: def.id.to_string(),
        tier: if ctx.quick() { "quick".into() } else { "thorough".into() },
        seed: ctx.seed,
        technique: def.technique.to_string(),
        rule: def.rule.to_string(),
        assumptions: def.assumptions.iter().map(|s| s.to_string()).collect(),
        results,
        wall_s: t0.elapsed().as_secs_f64(),
    }
}
