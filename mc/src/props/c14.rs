//! C14 - frequency estimates never under-count, saturate safely and age by halving.
//!
//! exh: (a) the packed 4-bit rows for all 256 byte values x 2 neighbours x every position;
//!      (b) FrequencyCounter for every counter count in a range (non-powers of two included), seed low
//!          bits enumerated, all access streams over <= 3 hashes up to a length, against exact counts;
//!      (c) TinyLFU across ageing windows against a reference that takes the door-keeper's answers as input.
use super::{Ctx, PropertyDef, ReplayOutcome, Scenario};
use crate::cache::lfu::frequency_counter::{verif_row_get_at, verif_row_half_counters, verif_row_increment_at, FrequencyCounter};
use crate::cache::lfu::tiny_lfu::TinyLFU;
use crate::harness::exh::{run_cases, violation};
use crate::harness::report::Collector;
use serde_json::{json, Value};
use std::sync::Arc;

// ---------------------------------------------------------------------------------------------- (a)
fn rows_check(i: u64, col: &Collector) {
    // a panic inside the row primitives (arithmetic overflow, index out of bounds) is a finding, not a machinery error
    let c2 = col.clone();
    if let Err(e) = std::panic::catch_unwind(std::panic::AssertUnwindSafe(|| rows_check_inner(i, &c2))) {
        let m = e.downcast_ref::<String>().cloned().or_else(|| e.downcast_ref::<&str>().map(|s| s.to_string())).unwrap_or_default();
        let b = i & 0xff;
        let pos = (i >> 10) & 3;
        col.violation(violation("panic", "panic:sketch:row-primitive", format!("a row primitive panicked on byte {:#04x} at position {}: {}", b, pos, m), json!({"row": [b], "position": pos})));
    }
}

fn rows_check_inner(i: u64, col: &Collector) {
    // case i = (byte value b, neighbour byte nb, position 0..4) on a two-byte row
    let b = (i & 0xff) as u8;
    let nb = match (i >> 8) & 3 {
        0 => 0x00u8,
        1 => 0xffu8,
        2 => 0x5au8,
        _ => b.wrapping_mul(7).wrapping_add(1),
    };
    let pos = (i >> 10) & 3;
    col.evaluated();
    let row: Vec<u8> = if pos < 2 { vec![b, nb] } else { vec![nb, b] };
    let nib = |row: &Vec<u8>, p: u64| -> u8 { (row[(p / 2) as usize] >> ((p & 1) * 4)) & 0x0f };
    let input = json!({"row": row, "position": pos});
    // get_at reads the addressed nibble
    for p in 0..4u64 {
        let got = verif_row_get_at(row.clone(), p);
        if got != nib(&row, p) {
            col.violation(violation("get_at", "sketch:get_at-wrong-nibble", format!("get_at({}) on {:02x?} returned {} instead of {}", p, row, got, nib(&row, p)), input.clone()));
        }
    }
    // increment_at: +1 below 15, unchanged at 15, no other nibble disturbed; 20 increments never wrap
    let mut cur = row.clone();
    for step in 0..20 {
        let before = cur.clone();
        cur = verif_row_increment_at(cur, pos);
        for p in 0..4u64 {
            let (o, n) = (nib(&before, p), nib(&cur, p));
            if p == pos {
                let want = if o < 15 { o + 1 } else { 15 };
                if n != want {
                    col.violation(violation("increment_at", if o == 15 { "sketch:saturated-counter-changed" } else { "sketch:increment-wrong" }, format!("increment #{} at position {} of {:02x?}: counter {} -> {} (expected {})", step + 1, pos, before, o, n, want), input.clone()));
                }
            } else if n != o {
                col.violation(violation("increment_at-neighbour", "sketch:increment-disturbed-neighbour", format!("increment at position {} of {:02x?} changed the counter at position {}: {} -> {}", pos, before, p, o, n), input.clone()));
            }
        }
    }
    // half_counters halves every nibble, rounding down
    let halved = verif_row_half_counters(row.clone());
    for p in 0..4u64 {
        if nib(&halved, p) != nib(&row, p) / 2 {
            col.violation(violation("half_counters", "sketch:halving-wrong", format!("half_counters on {:02x?}: counter {} at position {} became {}", row, nib(&row, p), p, nib(&halved, p)), input.clone()));
        }
    }
    if b != 0 {
        col.nontrivial(&format!("{}-{}-{}", b, nb, pos));
    }
    col.count("steps", 24);
    if i % 997 == 0 {
        col.sample(input, 3);
    }
}

// ---------------------------------------------------------------------------------------------- (b)
fn next_pow2(c: u64) -> u64 {
    let mut p = 1;
    while p < c {
        p *= 2;
    }
    p
}

#[derive(Clone, Debug)]
struct FcCase {
    counters: u64,
    seeds: [u64; 4],
    stream: Vec<u64>,
}

fn fc_cases(quick: bool) -> Vec<FcCase> {
    let hashes: [u64; 3] = [1, 6, 0xffff_ffff_ffff_fff3];
    let maxlen = if quick { 6 } else { 8 };
    let mut streams: Vec<Vec<u64>> = vec![vec![]];
    let mut frontier: Vec<Vec<u64>> = vec![vec![]];
    for _ in 0..maxlen {
        let mut next = Vec::new();
        for s in &frontier {
            for h in hashes {
                let mut t = s.clone();
                t.push(h);
                next.push(t);
            }
        }
        streams.extend(next.iter().cloned());
        frontier = next;
    }
    // saturation: one hash 17 times, alone and with a colliding partner
    streams.push(vec![1; 17]);
    let mut s = vec![1; 16];
    s.extend(vec![6; 3]);
    streams.push(s);
    let mut cases = Vec::new();
    let counter_counts: Vec<u64> = if quick { vec![1, 2, 3, 5, 8, 16, 17] } else { vec![1, 2, 3, 4, 5, 6, 7, 8, 9, 16, 17, 33] };
    for &c in &counter_counts {
        let len = next_pow2(c);
        // seed low bits: all combinations for row lengths <= 4, a structured family beyond
        let mut seed_sets: Vec<[u64; 4]> = Vec::new();
        if len <= 4 {
            for a in 0..len {
                for b in 0..len {
                    for cc in 0..len {
                        for d in 0..len {
                            seed_sets.push([a, b, cc, d]);
                        }
                    }
                }
            }
        } else {
            for i in 0..len {
                seed_sets.push([i, (i + 1) % len, (i * 3) % len, i ^ 5]);
            }
            seed_sets.push([0x9E37_79B9_7F4A_7C15, 0xC2B2_AE3D_27D4_EB4F, 0x1656_67B1_9E37_79F9, 0x27D4_EB2F_1656_67C5]);
        }
        let stride = if quick && seed_sets.len() > 16 { seed_sets.len() / 16 } else { 1 };
        for (si, seeds) in seed_sets.iter().enumerate() {
            if si % stride != 0 {
                continue;
            }
            for st in &streams {
                // full streams only for the longest length and the special ones: every prefix is checked inside
                if st.len() == maxlen || st.len() > maxlen {
                    cases.push(FcCase { counters: c, seeds: *seeds, stream: st.clone() });
                }
            }
        }
    }
    cases
}

fn fc_check(case: &FcCase, col: &Collector) {
    col.evaluated();
    let input = json!({"counters": case.counters, "seeds": case.seeds, "stream": case.stream});
    let r = std::panic::catch_unwind(|| {
        let mut problems: Vec<(String, String, String)> = Vec::new();
        let mut fc = FrequencyCounter::verif_with_seeds(case.counters, case.seeds);
        let len = next_pow2(case.counters);
        if fc.verif_total_counters() != len {
            problems.push(("row-length".into(), "sketch:row-length-not-next-power-of-two".into(), format!("counters={} gives rows of {} counters (expected {})", case.counters, fc.verif_total_counters(), len)));
        }
        let mut counts: std::collections::BTreeMap<u64, u64> = std::collections::BTreeMap::new();
        let mut steps = 0u64;
        for (i, h) in case.stream.iter().enumerate() {
            fc.increment(*h);
            *counts.entry(*h).or_insert(0) += 1;
            steps += 1;
            // exact reference: per row, the counter of h holds min(15, sum of the counts of the hashes sharing its position)
            for (q, _) in counts.iter() {
                let mut expect = u64::MAX;
                for r in 0..4 {
                    let pos = (q ^ case.seeds[r]) % len;
                    let sum: u64 = counts.iter().filter(|(o, _)| (*o ^ case.seeds[r]) % len == pos).map(|(_, c)| *c).sum();
                    expect = expect.min(sum.min(15));
                }
                let got = fc.estimate(*q) as u64;
                if got < counts[q].min(15) {
                    problems.push(("under-count".into(), "sketch:estimate-under-counts".into(), format!("after {} increments estimate({})={} < min(count {}, 15)", i + 1, q, got, counts[q])));
                } else if got != expect {
                    problems.push(("estimate-differs-from-reference".into(), "sketch:estimate-differs-from-count-min-reference".into(), format!("after {} increments estimate({})={} but the count-min reference gives {}", i + 1, q, got, expect)));
                }
            }
        }
        // reset halves every counter
        let before = fc.verif_rows();
        fc.reset();
        let after = fc.verif_rows();
        for (rb, ra) in before.iter().zip(after.iter()) {
            for (bb, ab) in rb.iter().zip(ra.iter()) {
                if (ab & 0x0f) != (bb & 0x0f) / 2 || (ab >> 4) != (bb >> 4) / 2 {
                    problems.push(("reset".into(), "sketch:reset-does-not-halve".into(), format!("reset turned byte {:02x} into {:02x}", bb, ab)));
                }
            }
        }
        (problems, steps)
    });
    match r {
        Ok((problems, steps)) => {
            col.count("steps", steps);
            for (c, s, d) in problems.into_iter().take(3) {
                col.violation(violation(&c, &s, d, input.clone()));
            }
        }
        Err(e) => {
            let m = e.downcast_ref::<String>().cloned().or_else(|| e.downcast_ref::<&str>().map(|s| s.to_string())).unwrap_or_default();
            col.violation(violation("panic", &format!("panic:sketch:counters={}", case.counters), format!("FrequencyCounter with counters={} panicked: {}", case.counters, m), input.clone()));
        }
    }
    if case.stream.len() >= 2 {
        col.nontrivial(&format!("{:?}", (case.counters, case.seeds, &case.stream)));
    }
}

// ---------------------------------------------------------------------------------------------- (c)
#[derive(Clone, Debug)]
struct LfuCase {
    counters: u64,
    stream: Vec<u64>,
    /// the stream is handed to `increment_access` in buffers of this many accesses (the reference model
    /// always works one access at a time: ageing happens after *exactly* `counters` recorded accesses)
    chunk: usize,
}

fn lfu_cases(quick: bool) -> Vec<LfuCase> {
    let hashes: [u64; 3] = [1, 6, 11];
    let len = if quick { 7 } else { 9 };
    let mut frontier: Vec<Vec<u64>> = vec![vec![]];
    for _ in 0..len {
        let mut next = Vec::new();
        for s in &frontier {
            for h in hashes {
                let mut t = s.clone();
                t.push(h);
                next.push(t);
            }
        }
        frontier = next;
    }
    let mut cases = Vec::new();
    let cs: Vec<u64> = if quick { vec![1, 2, 3, 4, 7] } else { vec![1, 2, 3, 4, 5, 7, 8, 9] };
    for c in cs {
        for s in &frontier {
            for chunk in [1usize, 2, 3, 7] {
                cases.push(LfuCase { counters: c, stream: s.clone(), chunk });
            }
        }
    }
    // long runs of one key through several windows and up to saturation
    for c in [4u64, 16, 64] {
        for chunk in [1usize, 5, 64] {
            cases.push(LfuCase { counters: c, stream: vec![1; 40], chunk });
        }
        let mut s = Vec::new();
        for i in 0..48 {
            s.push(if i % 3 == 0 { 6 } else { 1 });
        }
        for chunk in [1usize, 4, 64] {
            cases.push(LfuCase { counters: c, stream: s.clone(), chunk });
        }
    }
    // clear() (shutdown) in the middle of a window: the sketch starts a fresh window, whatever is recorded afterwards
    // is counted from zero and ages after exactly `counters` further accesses
    let mut short: Vec<Vec<u64>> = vec![vec![]];
    for _ in 0..5 {
        short = short.iter().flat_map(|s| [1u64, 6].iter().map(move |h| { let mut t = s.clone(); t.push(*h); t })).collect();
    }
    for c in [2u64, 3, 4, 7] {
        for s in &short {
            for at in 1..s.len() {
                let mut t = s.clone();
                t.insert(at, CLEAR);
                for chunk in [1usize, 2, 7] {
                    cases.push(LfuCase { counters: c, stream: t.clone(), chunk });
                }
            }
        }
    }
    cases
}

/// Stream marker: `TinyLFU::clear()` is called at this point.
const CLEAR: u64 = u64::MAX;

fn lfu_check(case: &LfuCase, col: &Collector) {
    col.evaluated();
    let input = json!({"counters": case.counters, "stream": case.stream, "chunk": case.chunk});
    let seeds = [3u64, 5, 9, 12];
    let r = std::panic::catch_unwind(|| {
        let mut problems: Vec<(String, String, String)> = Vec::new();
        let mut lfu = TinyLFU::verif_with_seeds(case.counters, seeds);
        let len = next_pow2(case.counters);
        // reference: exact per-position counters + the door-keeper's own answers (its false positives are inputs)
        let mut rows: Vec<Vec<u64>> = vec![vec![0; len as usize]; 4];
        let mut total = 0u64;
        let mut window_counts: std::collections::BTreeMap<u64, u64> = std::collections::BTreeMap::new();
        let keys: Vec<u64> = {
            let mut k: Vec<u64> = case.stream.iter().copied().filter(|h| *h != CLEAR).collect();
            k.sort();
            k.dedup();
            k
        };
        // reference door-keeper: exact set, seeded with the real filter's answers at the start of each chunk
        // (its false positives are inputs); inside a chunk the reference tracks what it adds itself
        let mut pos = 0usize;
        while pos < case.stream.len() {
            if case.stream[pos] == CLEAR {
                lfu.clear();
                for r in rows.iter_mut() {
                    r.iter_mut().for_each(|c| *c = 0);
                }
                total = 0;
                window_counts.clear();
                if lfu.verif_total_increments() != 0 || keys.iter().any(|k| lfu.estimate(*k) != 0) {
                    problems.push(("clear".into(), "lfu:clear-left-residue".into(), format!("after clear() at position {} total_increments={} estimates={:?}", pos, lfu.verif_total_increments(), keys.iter().map(|k| lfu.estimate(*k)).collect::<Vec<_>>())));
                }
                pos += 1;
                continue;
            }
            let mut end = (pos + case.chunk.max(1)).min(case.stream.len());
            if let Some(m) = case.stream[pos..end].iter().position(|h| *h == CLEAR) {
                end = pos + m;
            }
            let chunk: Vec<u64> = case.stream[pos..end].to_vec();
            let mut door: std::collections::BTreeSet<u64> = keys.iter().copied().filter(|k| lfu.verif_door_keeper_has(*k)).collect();
            lfu.increment_access(chunk.clone());
            let mut aged_in_chunk = false;
            for h in &chunk {
                let in_door = door.contains(h);
                if in_door {
                    for r in 0..4 {
                        let p = ((h ^ seeds[r]) % len) as usize;
                        rows[r][p] = (rows[r][p] + 1).min(15);
                    }
                } else {
                    door.insert(*h);
                }
                *window_counts.entry(*h).or_insert(0) += 1;
                total += 1;
                if total >= case.counters {
                    total = 0;
                    aged_in_chunk = true;
                    for r in rows.iter_mut() {
                        for c in r.iter_mut() {
                            *c /= 2;
                        }
                    }
                    window_counts.clear();
                    door.clear();
                }
            }
            let i = end - 1;
            let aged = aged_in_chunk;
            // the first-access filter agrees with the reference at the end of the chunk (cleared by ageing)
            for k in &keys {
                let has = lfu.verif_door_keeper_has(*k);
                if has && !door.contains(k) && aged {
                    problems.push(("doorkeeper-not-cleared".into(), "lfu:doorkeeper-not-cleared-on-ageing".into(), format!("after access #{} (window of {}, buffers of {}) the first-access filter still contains {} although ageing should have cleared it", i + 1, case.counters, case.chunk, k)));
                }
            }
            if lfu.verif_total_increments() != total {
                problems.push(("window-counter".into(), "lfu:window-counter-wrong".into(), format!("after access #{} (buffers of {}) total_increments={} (expected {})", i + 1, case.chunk, lfu.verif_total_increments(), total)));
            }
            // the packed rows equal the reference counters
            let real = lfu.verif_frequency_counter().verif_rows();
            for r in 0..4 {
                for p in 0..len as usize {
                    let got = (real[r][p / 2] >> ((p & 1) * 4)) & 0x0f;
                    if got as u64 != rows[r][p] {
                        problems.push(("counter-differs-from-reference".into(), if aged { "lfu:ageing-differs-from-reference".into() } else { "lfu:counter-differs-from-reference".into() }, format!("after access #{} (window {}, buffers of {}) row {} position {} holds {} (reference {})", i + 1, case.counters, case.chunk, r, p, got, rows[r][p])));
                    }
                }
            }
            // within the window the estimate is at least the number of recorded accesses (capped)
            for k in &keys {
                let est = lfu.estimate(*k) as u64;
                let n = window_counts.get(k).copied().unwrap_or(0);
                if est < n.min(15) {
                    problems.push(("under-count".into(), "lfu:estimate-under-counts-in-window".into(), format!("after access #{} estimate({})={} but it was accessed {} times in this window", i + 1, k, est, n)));
                }
            }
            pos = end;
        }
        problems
    });
    col.count("steps", case.stream.len() as u64);
    match r {
        Ok(problems) => {
            for (c, s, d) in problems.into_iter().take(3) {
                col.violation(violation(&c, &s, d, input.clone()));
            }
        }
        Err(e) => {
            let m = e.downcast_ref::<String>().cloned().or_else(|| e.downcast_ref::<&str>().map(|s| s.to_string())).unwrap_or_default();
            col.violation(violation("panic", &format!("panic:sketch:counters={}", case.counters), format!("TinyLFU with counters={} panicked: {}", case.counters, m), input.clone()));
        }
    }
    col.nontrivial(&format!("{:?}", (case.counters, &case.stream, case.chunk)));
    if case.stream.len() > 20 {
        col.sample(input, 2);
    }
}

fn no_replay(check: impl Fn(&Value) -> Vec<(String, String, String)> + Send + Sync + 'static) -> Box<dyn Fn(&Value) -> ReplayOutcome + Send + Sync> {
    Box::new(move |doc| Ok(check(&doc["replay"]["input"])))
}

fn found(col: &Collector) -> Vec<(String, String, String)> {
    col.0.lock().unwrap().violations.values().map(|(v, _)| (v.clause.clone(), v.signature.clone(), v.detail.clone())).collect()
}

// ---------------------------------------------------------------------------------------------- (d)
/// The same statement through the whole cache: `counters` goes through the builder, accesses through the pool, the
/// channel and the consumer thread. Recorded accesses are the delivered ones (`AccessAdded`), in hit order (one
/// buffer, FIFO hand-over, quiescence after every step); the window is what was recorded since the last multiple of
/// the configured counter count.
fn cache_oracle() -> crate::harness::seq::SeqOracle {
    use crate::harness::kit::*;
    use crate::harness::seq::{Finding, SeqRun};
    Arc::new(|run: &SeqRun, out: &mut Vec<Finding>| {
        let a = run.after();
        let n = run.setup.counters;
        if a.stats[ACCESS_DROPPED] != 0 || run.ops.iter().any(|o| matches!(o, Op::Shutdown)) {
            return;
        }
        let hits: Vec<K> = run.calls.iter().filter_map(|c| match (&c.op, &c.res) {
            (Op::Read { k, .. }, Res::Read(Some(_))) => Some(*k),
            _ => None,
        }).collect();
        let added = a.stats[ACCESS_ADDED] as usize;
        if added > hits.len() {
            out.push(Finding::new("recorded-more-than-hits", "lfu:recorded-more-than-hits", format!("{} accesses recorded but only {} hits happened", added, hits.len())));
            return;
        }
        if a.lfu_total_increments != added as u64 % n {
            out.push(Finding::new("ages-after-exactly-the-configured-count", "lfu:window-position-differs-from-configured-count", format!("{} accesses were recorded with counters={}: the window position must be {} but is {}", added, n, added as u64 % n, a.lfu_total_increments)));
        }
        let window = &hits[added - (added % n as usize)..added];
        for k in 1..=4u64 {
            let cnt = window.iter().filter(|h| **h == k).count() as u64;
            let est = a.estimates[(k - 1) as usize] as u64;
            if est < cnt.min(15) {
                out.push(Finding::new("under-count", "lfu:estimate-under-counts-in-window", format!("key {} was recorded {} times in the current window (counters={}, {} recorded in all) but its estimate is {}", k, cnt, n, added, est)));
            }
        }
        if added > 0 && added as u64 % n == 0 {
            // right after ageing the first-access filter is empty and every counter was halved: no estimate exceeds
            // 15 / 2, nor half of everything recorded so far (collisions with other keys included)
            for k in 1..=4u64 {
                let est = a.estimates[(k - 1) as usize] as u64;
                if est > 7 || est > added as u64 / 2 {
                    out.push(Finding::new("not-halved", "lfu:not-halved-at-the-configured-count", format!("right after the {}-th recorded access (counters={}) key {} has estimate {}", added, n, k, est)));
                }
            }
        }
    })
}

fn cache_spec(ctx: &Ctx, counters: u64, buffer: usize) -> crate::harness::seq::SeqSpec {
    use crate::harness::kit::*;
    use crate::props::common::{get, put};
    let quick = ctx.quick();
    crate::harness::seq::SeqSpec {
        name: format!("seq/sketch-through-the-cache/counters={}/buffer={}", counters, buffer),
        setup: Setup { weight: 100, counters, buffer, pool: 1, ..Setup::default() },
        world: Default::default(),
        prefix: vec![put(1, 1), put(2, 1)],
        alphabet: vec![get(1), get(2), get(3)],
        depth: counters as usize + buffer + if quick { 5 } else { 11 },
        allow: None,
        oracle: cache_oracle(),
        keys: vec![1, 2],
        canon_sketch: true,
        ghost_key: Some(Arc::new(|run: &crate::harness::seq::SeqRun| {
            // the oracle needs the hits of the current window: histories that differ in them are not merged
            let hits: Vec<K> = run.calls.iter().filter_map(|c| match (&c.op, &c.res) {
                (Op::Read { k, .. }, Res::Read(Some(_))) => Some(*k),
                _ => None,
            }).collect();
            let added = (run.obs[run.ops.len()].stats[ACCESS_ADDED] as usize).min(hits.len());
            let n = run.setup.counters as usize;
            format!("{:?}/{}", &hits[added - added % n..], hits.len())
        })),
        max_states: 2_000_000,
        time_cap_s: if quick { 8.0 } else { 300.0 },
    }
}

pub fn def(ctx: &Ctx) -> PropertyDef {
    let quick = ctx.quick();
    let workers = ctx.workers;
    let mut scenarios: Vec<Scenario> = Vec::new();
    scenarios.push(Scenario {
        name: "exh/packed-rows".into(),
        run: Box::new(move |_c| run_cases("exh/packed-rows", json!({"bytes": 256, "neighbour_bytes": 4, "positions": 4, "increments_per_case": 20}), 256 * 4 * 4, workers, Arc::new(rows_check))),
        replay: no_replay(|input| {
            let col = Collector::new();
            let row: Vec<u64> = input["row"].as_array().map(|a| a.iter().filter_map(|x| x.as_u64()).collect()).unwrap_or_default();
            let pos = input["position"].as_u64().unwrap_or(0);
            // re-derive the case index family: check every case with this byte at this position
            for i in 0..(256u64 * 4 * 4) {
                if (i >> 10) & 3 == pos && row.contains(&(i & 0xff)) {
                    rows_check(i, &col);
                }
            }
            found(&col)
        }),
    });
    scenarios.push(Scenario {
        name: "exh/frequency-counter-streams".into(),
        run: Box::new(move |c| {
            let cases = Arc::new(fc_cases(c.quick()));
            let n = cases.len() as u64;
            let cs = cases.clone();
            run_cases("exh/frequency-counter-streams", json!({"cases": n, "hashes": [1u64, 6, 0xffff_ffff_ffff_fff3u64], "stream_length": if c.quick() { 6 } else { 8 }}), n, workers, Arc::new(move |i, col| fc_check(&cs[i as usize], col)))
        }),
        replay: no_replay(|input| {
            let col = Collector::new();
            let seeds: Vec<u64> = input["seeds"].as_array().map(|a| a.iter().filter_map(|x| x.as_u64()).collect()).unwrap_or_default();
            let case = FcCase { counters: input["counters"].as_u64().unwrap_or(1), seeds: [seeds.first().copied().unwrap_or(0), seeds.get(1).copied().unwrap_or(0), seeds.get(2).copied().unwrap_or(0), seeds.get(3).copied().unwrap_or(0)], stream: input["stream"].as_array().map(|a| a.iter().filter_map(|x| x.as_u64()).collect()).unwrap_or_default() };
            fc_check(&case, &col);
            found(&col)
        }),
    });
    scenarios.push(Scenario {
        name: "exh/tiny-lfu-ageing".into(),
        run: Box::new(move |c| {
            let cases = Arc::new(lfu_cases(c.quick()));
            let n = cases.len() as u64;
            let cs = cases.clone();
            run_cases("exh/tiny-lfu-ageing", json!({"cases": n, "hashes": [1, 6, 11], "stream_length": if c.quick() { 7 } else { 9 }}), n, workers, Arc::new(move |i, col| lfu_check(&cs[i as usize], col)))
        }),
        replay: no_replay(|input| {
            let col = Collector::new();
            let case = LfuCase { counters: input["counters"].as_u64().unwrap_or(1), stream: input["stream"].as_array().map(|a| a.iter().filter_map(|x| x.as_u64()).collect()).unwrap_or_default(), chunk: input["chunk"].as_u64().unwrap_or(1) as usize };
            lfu_check(&case, &col);
            found(&col)
        }),
    });
    // the sketch as the cache configures and feeds it (builder -> TinyLFU; reads -> access buffer -> consumer)
    for (counters, buffer) in [(3u64, 1usize), (5, 2), (6, 1), (10, 1), (10, 3), (3, 5), (2, 4)] {
        let name = cache_spec(ctx, counters, buffer).name;
        scenarios.push(crate::harness::seq::seq_scenario(move |c| cache_spec(c, counters, buffer), &name));
    }
    let _ = quick;
    PropertyDef {
        id: "C14",
        technique: "exhaustive input enumeration of the real sketch components (packed rows, FrequencyCounter, TinyLFU) against exact reference counters: all 256 byte values x positions, all access streams over 3 hashes up to a length for every counter count and enumerated seed low bits; plus explicit-state breadth-first search over read sequences through the whole cache (builder-configured counter counts, access buffer, consumer thread)",
        rule: "exh: every case of the finite input spaces listed per scenario; distinct_nontrivial = distinct (counter count, seeds, stream) cases with at least two accesses / non-zero bytes; seq: all read sequences up to the depth, canonical states (sketch included) first reached at depth >= 2",
        assumptions: vec![
            "only seed bits below the row length matter (rows are a power of two long and positions are (hash ^ seed) mod length)",
            "the first-access filter (bloom filter, fixed seed) is not predicted: the reference takes its membership answers as inputs and checks that it is empty after ageing",
            "hashes are limited to three values, streams to the stated length; counter counts to the listed ones",
        ],
        scenarios,
    }
}
