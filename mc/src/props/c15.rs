//! C15 - every hit is accounted exactly once; reads never wait for the counting pipeline.
use super::common::*;
use super::{Ctx, PropertyDef, Scenario, COMMON_ASSUMPTIONS};
use crate::harness::ilv::*;
use crate::harness::kit::*;
use crate::harness::seq::{seq_scenario, SeqOracle, SeqRun, SeqSpec};
use std::sync::Arc;

fn conservation(o: &Obs) -> Option<String> {
    let buffered: u64 = o.buffered.iter().map(|b| b.len() as u64).sum();
    let (hits, added, dropped) = (o.stats[HITS], o.stats[ACCESS_ADDED], o.stats[ACCESS_DROPPED]);
    if hits != buffered + added + dropped {
        Some(format!("CacheHits={} but buffered={} + AccessAdded={} + AccessDropped={} = {}", hits, buffered, added, dropped, buffered + added + dropped))
    } else {
        None
    }
}

fn oracle(consumer_frozen: bool) -> Oracle {
    Arc::new(move |run: &Run, out: &mut Vec<Finding>| {
        // a reader that had to wait for the (frozen) consumer: only frozen tasks were runnable while clients were unfinished
        if consumer_frozen && run.starved {
            out.push(Finding::new("read-blocked-on-pipeline", "access:read-blocked-on-consumer", "with the consumer stopped, at some point no client could make progress: a read waited for the counting pipeline".to_string()));
        }
        // number of successful reads of the clients
        let successful: u64 = run
            .calls
            .iter()
            .map(|c| match &c.res {
                Res::Read(Some(_)) => 1,
                Res::MultiRead(vs) => vs.iter().filter(|v| v.is_some()).count() as u64,
                _ => 0,
            })
            .sum();
        for (o, when) in [(&run.obs_end, "at the end of the window"), (&run.obs_post, "after the probe")] {
            if let Some(m) = conservation(o) {
                out.push(Finding::new("conservation", "access:hits!=buffered+added+dropped", format!("{}: {}", when, m)));
                break;
            }
        }
        let post_reads: u64 = run.calls.iter().filter(|c| c.thread == PHASE_POST).map(|c| matches!(c.res, Res::Read(Some(_))) as u64).sum();
        if run.obs_end.stats[HITS] != successful - post_reads {
            out.push(Finding::new("hits-vs-successful-reads", "access:hits!=successful-reads", format!("{} reads returned a value in the window but CacheHits={}", successful - post_reads, run.obs_end.stats[HITS])));
        }
        // once the consumer has caught up, what it applied is what was delivered
        let applied: i64 = run.events.iter().filter(|e| e.kind == "batch_applied").map(|e| e.data[0]).sum();
        if applied as u64 != run.obs_post.stats[ACCESS_ADDED] {
            out.push(Finding::new("delivered-vs-applied", "access:applied!=AccessAdded", format!("the consumer applied {} accesses but AccessAdded={}", applied, run.obs_post.stats[ACCESS_ADDED])));
        }
        // delivered accesses are visible in the sketch: estimate >= min(delivered count, 15) as long as no ageing happened
        let counters = run.program.setup.counters;
        if (applied as u64) < counters {
            // per key: delivered = hits of that key that are neither still buffered nor dropped; a lower bound is
            // (successful reads of k) - (buffered k) - (total dropped)
            for k in 1..=4u64 {
                let reads_k: i64 = run
                    .calls
                    .iter()
                    .map(|c| match (&c.op, &c.res) {
                        (Op::Read { k: rk, .. }, Res::Read(Some(_))) if *rk == k => 1,
                        _ => 0,
                    })
                    .sum();
                let buffered_k: i64 = run.obs_post.buffered.iter().flatten().filter(|h| **h == k).count() as i64;
                let lower = reads_k - buffered_k - run.obs_post.stats[ACCESS_DROPPED] as i64;
                if lower > 0 && (run.obs_post.estimates[(k - 1) as usize] as i64) < lower.min(15) {
                    out.push(Finding::new("estimate-under-counts", "access:estimate-below-delivered", format!("at least {} accesses of key {} were delivered to the sketch but its estimate is {}", lower, k, run.obs_post.estimates[(k - 1) as usize])));
                }
            }
        }
    })
}

fn programs() -> Vec<(Program, bool)> {
    let mut v = Vec::new();
    let mk = |name: &str, pool: usize, buffer: usize, chan: Option<usize>, frozen: bool, threads: Vec<Vec<Op>>| {
        let mut p = Program::new(name);
        p.setup = Setup { weight: 100, pool, buffer, counters: 64, ..Setup::default() };
        p.init = vec![put(1, 2), put(2, 2)];
        p.threads = threads;
        p.world.pool_index_is_choice = pool > 1;
        p.world.access_channel_cap = chan;
        if frozen {
            p.frozen = vec![Role::Consumer];
        }
        p.post = vec![get(1)];
        (p, frozen)
    };
    let g = |k: K| get(k);
    v.push(mk("2 readers x2 hits/pool1/buffer1", 1, 1, None, false, vec![vec![g(1), g(1)], vec![g(1), g(2)]]));
    {
        // the statistics counters as shared memory of their own: every add is a scheduling point
        let (mut p, f) = mk("2 readers x2 hits/pool1/buffer1/stat-counters-as-scheduling-points", 1, 1, None, false, vec![vec![g(1), g(1)], vec![g(1), g(2)]]);
        p.world.stats_atomics_are_points = true;
        v.push((p, f));
        let (mut p, f) = mk("2 readers x1 hit/pool2/buffer1/stat-counters-as-scheduling-points", 2, 1, None, false, vec![vec![g(1)], vec![g(2)]]);
        p.world.stats_atomics_are_points = true;
        v.push((p, f));
    }
    v.push(mk("2 readers x2 hits/pool2/buffer1", 2, 1, None, false, vec![vec![g(1), g(1)], vec![g(2), g(1)]]));
    // a pool size that is not a power of two (the buffer index is a data choice over 0..pool)
    v.push(mk("reader x3 hits/pool3/buffer1", 3, 1, None, false, vec![vec![g(1), g(1), g(2)]]));
    v.push(mk("2 readers x3 (hit,miss,hit)/pool1/buffer2", 1, 2, None, false, vec![vec![g(1), g(3), g(1)], vec![g(2), g(1), g(3)]]));
    v.push(mk("2 readers x3 hits/pool1/buffer1/channel1/consumer-stopped", 1, 1, Some(1), true, vec![vec![g(1), g(1), g(1)], vec![g(2), g(2), g(2)]]));
    v.push(mk("2 readers x2 hits/pool2/buffer1/channel1/consumer-stopped", 2, 1, Some(1), true, vec![vec![g(1), g(1)], vec![g(2), g(2)]]));
    v.push(mk("2 readers x3 hits/pool1/buffer1/channel1/consumer-slow", 1, 1, Some(1), false, vec![vec![g(1), g(1), g(1)], vec![g(2), g(2), g(2)]]));
    v.push(mk("multi_get([a,a,b]) || multi_get_iterator([b,a,b])/pool1/buffer1/channel2", 1, 1, Some(2), false, vec![vec![Op::MultiRead { keys: vec![1, 1, 2], variant: ReadVariant::MultiGet }], vec![Op::MultiRead { keys: vec![2, 1, 2], variant: ReadVariant::MultiGetIterator }]]));
    // the key a reader has just hit is removed (delete / eviction) before the reader records the access
    v.push(mk("reader: get(a);get(a) || delete(a)/pool1/buffer1", 1, 1, None, false, vec![vec![g(1), g(1)], vec![del(1)]]));
    {
        let (mut p, f) = mk("reader: get(a);get(b) || evicting-put(c)/pool1/buffer1", 1, 1, None, false, vec![vec![g(1), g(2)], vec![put(3, 99)]]);
        p.setup.weight = 100;
        v.push((p, f));
    }
    v.push(mk("reader x4 hits || delete;put same key/pool1/buffer1/channel2", 1, 1, Some(2), false, vec![vec![g(1), g(1), g(1), g(1)], vec![del(2), put(2, 2)]]));
    v
}

fn seq_oracle() -> SeqOracle {
    Arc::new(|run: &SeqRun, out: &mut Vec<crate::harness::seq::Finding>| {
        if let Some(m) = conservation(run.after()) {
            if conservation(run.before()).is_none() {
                out.push(crate::harness::seq::Finding::new("conservation", "access:hits!=buffered+added+dropped", format!("after {}: {}", run.calls[run.last()].op.short(), m)));
            }
        }
        // a hand-over delivers whole buffers: AccessAdded + AccessDropped moves in multiples of the buffer size
        let (b, a) = (run.before(), run.after());
        let moved = (a.stats[ACCESS_ADDED] + a.stats[ACCESS_DROPPED]) - (b.stats[ACCESS_ADDED] + b.stats[ACCESS_DROPPED]);
        if moved % run.setup.buffer as u64 != 0 {
            out.push(crate::harness::seq::Finding::new("whole-buffers", "access:partial-buffer-delivered", format!("AccessAdded+AccessDropped moved by {} with buffer size {}", moved, run.setup.buffer)));
        }
        // a record counted as added has reached the sketch: the sketch's position in its ageing window is the number of
        // added records modulo the window length (nothing was dropped in these histories unless the counter says so)
        let n = run.setup.counters;
        let ok = |o: &Obs| o.lfu_total_increments == o.stats[ACCESS_ADDED] % n;
        if !ok(a) && ok(b) {
            out.push(crate::harness::seq::Finding::new("added-but-not-applied", "access:added-record-not-applied-to-sketch", format!("after {}: {} records are counted as added (window length {}), so the sketch must stand at position {} of its window, but it stands at {}", run.calls[run.last()].op.short(), a.stats[ACCESS_ADDED], n, a.stats[ACCESS_ADDED] % n, a.lfu_total_increments)));
        }
    })
}

fn seq_spec(ctx: &Ctx, pool: usize, buffer: usize) -> SeqSpec {
    SeqSpec {
        name: format!("seq/access-conservation/pool{}/buffer{}", pool, buffer),
        setup: Setup { weight: 100, pool, buffer, counters: 8, ..Setup::default() },
        world: Default::default(),
        prefix: vec![put(1, 2), put(2, 2)],
        alphabet: vec![get(1), get(2), get(3), Op::MultiRead { keys: vec![1, 2, 3], variant: ReadVariant::MultiGet }, Op::MultiRead { keys: vec![1, 1, 2], variant: ReadVariant::MultiGet }, Op::MultiRead { keys: vec![2, 2], variant: ReadVariant::MultiGetMapIterator }, Op::Read { k: 1, variant: ReadVariant::GetRef }, del(2), put(2, 2)],
        depth: if ctx.quick() { 7 } else { 9 },
        allow: None,
        oracle: seq_oracle(),
        keys: vec![1, 2, 3],
        canon_sketch: true,
        ghost_key: None,
        max_states: 2_000_000,
        time_cap_s: if ctx.quick() { 10.0 } else { 300.0 },
    }
}

/// One key read far more often than the sketch can count (estimate saturates at 15): every further hit is still an
/// access record. The history starts after 16 + buffer hits of key 1.
fn hot_key_spec(ctx: &Ctx, buffer: usize) -> SeqSpec {
    let mut prefix = vec![put(1, 2), put(2, 2)];
    for _ in 0..(16 + buffer) {
        prefix.push(get(1));
    }
    SeqSpec {
        name: format!("seq/access-conservation/saturated-key/buffer{}", buffer),
        setup: Setup { weight: 100, pool: 1, buffer, counters: 64, ..Setup::default() },
        world: Default::default(),
        prefix,
        alphabet: vec![get(1), get(2), Op::MultiRead { keys: vec![1, 1, 2], variant: ReadVariant::MultiGet }, Op::Read { k: 1, variant: ReadVariant::MapGetRef }],
        depth: if ctx.quick() { 6 } else { 9 },
        allow: None,
        oracle: seq_oracle(),
        keys: vec![1, 2],
        canon_sketch: true,
        ghost_key: None,
        max_states: 2_000_000,
        time_cap_s: if ctx.quick() { 10.0 } else { 300.0 },
    }
}

pub fn def(ctx: &Ctx) -> PropertyDef {
    let quick = ctx.quick();
    let workers = ctx.workers;
    let mut scenarios: Vec<Scenario> = Vec::new();
    for (p, frozen) in programs() {
        scenarios.push({
                let nthreads = p.threads.len();
                program_scenario(p, oracle(frozen), move |c| crate::harness::ilv::tier_cfg(c, nthreads))
            });
    }
    for (pool, buffer) in [(1usize, 1usize), (1, 2), (1, 3), (3, 1)] {
        let name = seq_spec(ctx, pool, buffer).name;
        scenarios.push(seq_scenario(move |c| seq_spec(c, pool, buffer), &name));
    }
    for buffer in [1usize, 4] {
        let name = hot_key_spec(ctx, buffer).name;
        scenarios.push(seq_scenario(move |c| hot_key_spec(c, buffer), &name));
    }
    let mut assumptions = COMMON_ASSUMPTIONS.to_vec();
    assumptions.push("the buffer index drawn by Pool::add is an explorer data choice when the pool has more than one buffer; the access channel's capacity (constant 10 in the code) is shrunk to 1-2 by the channel shim so that saturation is reachable with a handful of reads");
    assumptions.push("'consumer stopped' = the consumer task is never scheduled inside the window; if at some point only it could run, a reader was waiting for it");
    PropertyDef {
        id: "C15",
        technique: "stateless preemption-bounded model checking of the real code (readers vs. buffer hand-over vs. consumer, consumer optionally frozen, buffer index as data choice) with a conservation oracle, plus explicit-state BFS over read sequences",
        rule: "ilv: every schedule and every buffer-index choice of each reader program up to the bound; distinct_nontrivial = distinct overlapping call/return histories; seq: canonical states first reached at depth >= 2",
        assumptions,
        scenarios,
    }
}
