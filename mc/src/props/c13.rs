//! C13 - shutdown refuses new work, answers every pending command, never blocks.
use super::common::*;
use super::{Ctx, PropertyDef, Scenario, COMMON_ASSUMPTIONS};
use crate::cache::command::CommandStatus;
use crate::harness::ilv::*;
use crate::harness::kit::*;
use std::sync::Arc;

fn oracle() -> Oracle {
    Arc::new(|run: &Run, out: &mut Vec<Finding>| {
        let shutdown_rets: Vec<u64> = run.calls.iter().filter(|c| matches!(c.op, Op::Shutdown) && !matches!(c.res, Res::Panicked(_))).map(|c| c.ret).collect();
        let first_ret = shutdown_rets.iter().min().copied();
        // every call invoked after some shutdown() returned is refused
        if let Some(fr) = first_ret {
            // a lazy iterator created before shutdown() returned: every `next()` that begins afterwards is a read of
            // its own and must come back empty
            for c in run.calls.iter().filter(|c| c.inv <= fr && !c.elems.is_empty()) {
                if let Res::MultiRead(vs) = &c.res {
                    for (i, (a, _)) in c.elems.iter().enumerate() {
                        if *a > fr && vs.get(i).copied().flatten().is_some() {
                            out.push(Finding::new("read-after-shutdown", "shutdown:iterator-element-served-after-shutdown", format!("{}: element #{} was fetched (step {}) after shutdown() had returned (step {}) and is {:?}", c.short(), i, a, fr, vs[i])));
                        }
                    }
                }
            }
            for c in run.calls.iter().filter(|c| c.inv > fr) {
                match &c.res {
                    Res::Write { err, .. } if !*err => out.push(Finding::new("write-after-shutdown", "shutdown:write-accepted-after-shutdown", format!("{} was invoked after shutdown() had returned and did not return an error", c.short()))),
                    Res::Read(Some(v)) => out.push(Finding::new("read-after-shutdown", "shutdown:read-served-after-shutdown", format!("{} was invoked after shutdown() had returned and returned {}", c.short(), v))),
                    Res::MultiRead(vs) if vs.iter().any(|v| v.is_some()) => out.push(Finding::new("read-after-shutdown", "shutdown:read-served-after-shutdown", format!("{} was invoked after shutdown() had returned and returned {:?}", c.short(), vs))),
                    _ => {}
                }
            }
        }
        // every acknowledgement handed out completes with a real status
        let shutdown_deq = run.events.iter().find(|e| e.kind == "worker_dequeued" && e.text == "Shutdown").map(|e| e.seq);
        for c in run.calls.iter() {
            if let Res::Write { err: false, sent, ack_id, .. } = &c.res {
                let st = run.status_of(c.thread, c.idx);
                match st {
                    None | Some(CommandStatus::Pending) => out.push(Finding::new("ack-never-completes", "shutdown:ack-pending-forever", format!("the acknowledgement of {} is still Pending after shutdown and quiescence", c.short()))),
                    Some(s) => {
                        if sent.is_some() {
                            let deq = run.events.iter().find(|e| e.kind == "worker_dequeued" && e.data.first() == Some(ack_id)).map(|e| e.seq);
                            let ran = match (deq, shutdown_deq) {
                                (Some(d), Some(sd)) => d < sd,
                                (Some(_), None) => true,
                                (None, _) => false,
                            };
                            if ran && s == CommandStatus::ShuttingDown {
                                out.push(Finding::new("ran-but-shutting-down", "shutdown:executed-command-answered-ShuttingDown", format!("{} was executed by the worker before the Shutdown command but was acknowledged ShuttingDown", c.short())));
                            }
                            if !ran && s != CommandStatus::ShuttingDown {
                                out.push(Finding::new("not-run-but-real-status", "shutdown:unexecuted-command-answered-with-outcome", format!("{} reached the worker after the Shutdown command but was acknowledged {}", c.short(), status_short(&s))));
                            }
                        }
                    }
                }
            }
        }
    })
}

fn programs() -> Vec<Program> {
    let mut v = Vec::new();
    let mk = |name: &str, queue: usize, init: Vec<Op>, threads: Vec<Vec<Op>>| {
        let mut p = Program::new(name);
        p.setup = Setup { weight: 100, queue, ..Setup::default() };
        p.init = init;
        p.threads = threads;
        // after shutdown: a fresh key, the keys the clients wrote (they may have landed after the store was cleared), a delete, an upsert, reads
        p.post = vec![put(3, 2), put(2, 2), Op::Put { k: 2, w: None, ttl_ms: Some(1000) }, del(1), del(2), Op::Upsert { k: 1, value: true, w: None, ttl_ms: None, remove_ttl: false }, Op::ReadAll { keys: vec![1, 2] }];
        p.quiesce_sweeps = false;
        p
    };
    let ups = |k: K| Op::Upsert { k, value: true, w: Some(3), ttl_ms: None, remove_ttl: false };
    v.push(mk("shutdown || put(b);get(a)", 1, vec![put(1, 2)], vec![vec![Op::Shutdown], vec![put(2, 2), get(1)]]));
    v.push(mk("shutdown || delete(a);put(b)", 1, vec![put(1, 2)], vec![vec![Op::Shutdown], vec![del(1), put(2, 2)]]));
    v.push(mk("shutdown || upsert(a);put_ttl(b)", 1, vec![put(1, 2)], vec![vec![Op::Shutdown], vec![ups(1), put_ttl(2, 2, 5000)]]));
    v.push(mk("shutdown || shutdown || put(b)", 1, vec![put(1, 2)], vec![vec![Op::Shutdown], vec![Op::Shutdown], vec![put(2, 2)]]));
    v.push(mk("shutdown;put(c) || put(b);delete(a) (full queue)", 1, vec![put(1, 2)], vec![vec![Op::Shutdown, put(3, 2)], vec![put(2, 2), del(1)]]));
    v.push(mk("shutdown || put(b) || delete(a)", 1, vec![put(1, 2)], vec![vec![Op::Shutdown], vec![put(2, 2)], vec![del(1)]]));
    v.push(mk("shutdown;shutdown || put(b);put(c)", 1, vec![put(1, 2)], vec![vec![Op::Shutdown, Op::Shutdown], vec![put(2, 2), put(3, 2)]]));
    v.push(mk("shutdown || multi_get([a,b]);get_ref(a)", 2, vec![put(1, 2), put(2, 2)], vec![vec![Op::Shutdown], vec![Op::MultiRead { keys: vec![1, 2], variant: ReadVariant::MultiGetIterator }, Op::Read { k: 1, variant: ReadVariant::GetRef }]]));
    // a configured weight function that makes every pair heavier than the cache: after shutdown a put without an explicit
    // weight is refused like any other write (not answered "too heavy")
    {
        let mut p = mk("shutdown || put_with_weight(b) ; weight function heavier than the cache", 1, vec![put(1, 2)], vec![vec![Op::Shutdown], vec![put(2, 2)]]);
        p.setup.weight_fn = WeightFn::Const { c: 500, ttl_extra: 0 };
        p.post = vec![Op::Put { k: 3, w: None, ttl_ms: None }, Op::Put { k: 3, w: None, ttl_ms: Some(1000) }, put(4, 2), Op::Upsert { k: 5, value: true, w: None, ttl_ms: None, remove_ttl: false }, Op::ReadAll { keys: vec![1, 2] }];
        v.push(p);
    }
    // more writers blocked on the full queue (size 1) than the queue holds: every one of their commands is answered
    v.push(mk("shutdown || put(b);put(c) || delete(a) (queue 1)", 1, vec![put(1, 2)], vec![vec![Op::Shutdown], vec![put(2, 2), put(3, 2)], vec![del(1)]]));
    // an iterator created before the shutdown and drained across it, while a put queued ahead of the Shutdown command
    // lands after the store was cleared
    v.push(mk("shutdown || put(b) || multi_get_iterator([b,b,b])", 2, vec![put(1, 2)], vec![vec![Op::Shutdown], vec![put(2, 2)], vec![Op::MultiRead { keys: vec![2, 2, 2], variant: ReadVariant::MultiGetIterator }]]));
    v.push(mk("put(b);shutdown || multi_get_map_iterator([b,b])", 2, vec![put(1, 2)], vec![vec![put(2, 2), Op::Shutdown], vec![Op::MultiRead { keys: vec![2, 2], variant: ReadVariant::MultiGetMapIterator }]]));
    {
        let mut p = mk("shutdown || put(b);upsert(a);delete(a) || put(c);get(a) (queue 1)", 1, vec![put(1, 2)], vec![vec![Op::Shutdown], vec![put(2, 2), ups(1), del(1)], vec![put(3, 2), get(1)]]);
        p.thorough_only = true;
        v.push(p);
    }
    // callers that really wait: a blocked await is only released by the wake-up of the acknowledgement, whether the command
    // ran or was drained as 'shutting down'; the second program polls once from another context first (a timeout / select!
    // around the acknowledgement), so the waker registered by the await replaces an earlier one
    v.push(mk("put(b);await || shutdown", 1, vec![put(1, 2)], vec![vec![put(2, 2), Op::Await { call: 0 }], vec![Op::Shutdown]]));
    v.push(mk("put(b);poll_once;await || shutdown", 1, vec![put(1, 2)], vec![vec![put(2, 2), Op::PollOnce { call: 0 }, Op::Await { call: 0 }], vec![Op::Shutdown]]));
    v.push(mk("put(b);delete(a);poll_once(delete);await(delete) || shutdown (queue 1)", 1, vec![put(1, 2)], vec![vec![put(2, 2), del(1), Op::PollOnce { call: 1 }, Op::Await { call: 1 }], vec![Op::Shutdown]]));
    v
}

pub fn def(ctx: &Ctx) -> PropertyDef {
    let quick = ctx.quick();
    let workers = ctx.workers;
    let scenarios: Vec<Scenario> = for_tier(programs(), quick)
        .into_iter()
        .map(|p| {
            let n = p.threads.len();
            {
                let nthreads = p.threads.len();
                program_scenario(p, oracle(), move |c| crate::harness::ilv::tier_cfg(c, nthreads))
            }
        })
        .collect();
    let mut assumptions = COMMON_ASSUMPTIONS.to_vec();
    assumptions.push("'after shutdown() has returned' is decided with step stamps taken on the calling threads; an acknowledgement that never completes shows up as a deadlock of the harness' quiescence wait");
    PropertyDef {
        id: "C13",
        technique: "stateless preemption-bounded model checking of the real code: shutdown() racing writers/readers and other shutdown calls with a queue of size 1; lifecycle flags are scheduling points in these scenarios",
        rule: "ilv: every schedule of each shutdown program up to the bound; distinct_nontrivial = distinct overlapping call/return histories",
        assumptions,
        scenarios,
    }
}
