//! C10 - the sweeper removes exactly the expired keys and reclaims their weight.
use super::c03;
use super::common::*;
use super::{Ctx, PropertyDef, Scenario, COMMON_ASSUMPTIONS};
use crate::harness::ilv::{program_scenario, IlvCfg, Oracle, Program, Run};
use crate::harness::kit::*;
use crate::harness::seq::*;
use std::sync::Arc;

/// Oracle of one `tick` transition at instant t (shard r = floor(t) mod shards): the removed set is exactly
/// the held keys whose *current* expiry lies in shard r and has passed.
fn seq_oracle() -> SeqOracle {
    Arc::new(|run: &SeqRun, out: &mut Vec<Finding>| {
        let i = run.last();
        let c = &run.calls[i];
        let (b, a) = (run.before(), run.after());
        let shards = run.setup.shards as u64;
        // "expired" means the same to the readers and to the sweeper (the library's `Clock::has_passed`: now > expiry):
        // at every instant, the expiry instant itself included, a read serves exactly the held, undeleted keys the
        // sweeper would keep
        if let Op::ReadAll { .. } = &c.op {
            let t = c.now_ms_inv;
            for (variant, k, got) in read_all_results(c) {
                if let Some(e) = b.entry(k) {
                    if let (Some(x), false) = (e.3, e.4) {
                        let sweeper_keeps = t <= x;
                        if sweeper_keeps != got.is_some() {
                            out.push(Finding::new(
                                "readers-and-sweeper-disagree-on-expired",
                                if t == x { "sweep:expiry-instant:readers-and-sweeper-disagree" } else { "sweep:readers-and-sweeper-disagree" },
                                format!("{:?}({}) returned {:?} at t={} but the key's expiry is {} and the sweeper's rule (now > expiry) {} it", variant, k, got, t - T0_MS, x - T0_MS, if sweeper_keeps { "keeps" } else { "removes" }),
                            ));
                        }
                    }
                }
            }
        }
        if matches!(c.op, Op::TickWait) {
            let t = c.now_ms_inv;
            let r = (t / 1000) % shards;
            let mut expected: Vec<K> = Vec::new();
            for e in b.store.iter() {
                if let Some(x) = e.3 {
                    if (x / 1000) % shards == r && t > x {
                        expected.push(e.0);
                    }
                }
            }
            let removed: Vec<K> = b.store.iter().filter(|e| a.entry(e.0).is_none()).map(|e| e.0).collect();
            for k in &removed {
                if !expected.contains(k) {
                    let e = b.entry(*k).unwrap();
                    let why = match e.3 {
                        None => "no-ttl",
                        Some(x) if t <= x => "expiry-in-the-future",
                        Some(_) => "other-shard",
                    };
                    out.push(Finding::new("sweep-removed-live-key", format!("sweep:removed-live-key:{}", why), format!("the sweep at t={} (shard {}) removed key {} whose expiry is {:?}", t - T0_MS, r, k, e.3.map(|x| x - T0_MS))));
                }
            }
            for k in &expected {
                if !removed.contains(k) {
                    out.push(Finding::new("sweep-missed-expired-key", "sweep:missed-expired-key", format!("the sweep at t={} (shard {}) left key {} (expiry {:?}) in the cache", t - T0_MS, r, k, b.entry(*k).unwrap().3.map(|x| x - T0_MS))));
                }
            }
            // untouched keys keep value, id, expiry
            for e in b.store.iter().filter(|e| !removed.contains(&e.0)) {
                if a.entry(e.0) != Some(e) {
                    out.push(Finding::new("sweep-altered-key", "sweep:altered-key", format!("the sweep changed key {}: {:?} -> {:?}", e.0, e, a.entry(e.0))));
                }
            }
            // weight and bookkeeping of the removed keys are released
            let released: i64 = removed.iter().map(|k| b.weight_of_id(b.entry(*k).unwrap().2).unwrap_or(0)).sum();
            if a.weight_used != b.weight_used - released {
                out.push(Finding::new("sweep-weight", "sweep:weight-not-released", format!("the sweep removed keys {:?} weighing {} but the total went from {} to {}", removed, released, b.weight_used, a.weight_used)));
            }
            if a.stats[KEYS_DELETED] - b.stats[KEYS_DELETED] != removed.len() as u64 {
                out.push(Finding::new("sweep-keys-deleted", "sweep:keys-deleted-count", format!("the sweep removed {} keys but KeysDeleted moved by {}", removed.len(), a.stats[KEYS_DELETED] - b.stats[KEYS_DELETED])));
            }
            for k in &removed {
                let id = b.entry(*k).unwrap().2;
                if a.weights.iter().any(|w| w.0 == id) || a.ttl.iter().any(|x| x.1 == id) {
                    out.push(Finding::new("sweep-residue", "sweep:residue", format!("after the sweep id #{} of key {} is still charged or indexed", id, k)));
                }
            }
        }
        for f in accounting_violations(a) {
            if accounting_violations(b).is_empty() {
                out.push(Finding::new("accounting", "sweep:accounting-broken", format!("after {}: {}", c.op.short(), f)));
            }
        }
        // the expiry index mirrors the store: one entry per held key with a TTL, in the shard of that expiry
        // (stale entries of departed ids are harmless and allowed)
        for e in a.store.iter() {
            if let Some(x) = e.3 {
                let sh = ((x / 1000) % shards) as usize;
                let ok = a.ttl.iter().any(|t| t.0 == sh && t.1 == e.2 && t.2 == x);
                let before_ok = b.entry(e.0).map(|be| be.3.map(|bx| b.ttl.iter().any(|t| t.1 == be.2 && t.2 == bx)).unwrap_or(true)).unwrap_or(true);
                if !ok && before_ok {
                    out.push(Finding::new("expiry-index-out-of-sync", "sweep:index-missing-current-expiry", format!("after {} key {} (id #{}) expires at {} but the expiry index has no such entry: {:?}", c.op.short(), e.0, e.2, x - T0_MS, a.ttl)));
                }
            }
        }
    })
}

fn seq_spec(ctx: &Ctx, shards: usize, w: i64) -> SeqSpec {
    let quick = ctx.quick();
    let mut alphabet: Vec<Op> = Vec::new();
    for k in [1u64, 2] {
        alphabet.push(Op::Put { k, w: Some(30), ttl_ms: None });
        alphabet.push(Op::Put { k, w: Some(30), ttl_ms: Some(1000) });
        alphabet.push(Op::Put { k, w: Some(30), ttl_ms: Some(2500) });
        alphabet.push(Op::Upsert { k, value: false, w: None, ttl_ms: Some(4000), remove_ttl: false });
        alphabet.push(Op::Upsert { k, value: false, w: None, ttl_ms: None, remove_ttl: true });
        alphabet.push(Op::Delete { k });
    }
    alphabet.push(Op::Upsert { k: 1, value: true, w: Some(30), ttl_ms: Some(500), remove_ttl: false });
    alphabet.push(Op::Upsert { k: 1, value: true, w: Some(30), ttl_ms: None, remove_ttl: true });
    alphabet.push(Op::Upsert { k: 2, value: true, w: None, ttl_ms: None, remove_ttl: true });
    // under the small cache weight this one evicts
    alphabet.push(Op::Put { k: 3, w: Some(60), ttl_ms: Some(1000) });
    alphabet.push(Op::Advance { ms: 1000 });
    alphabet.push(Op::Advance { ms: 2000 });
    alphabet.push(Op::TickWait);
    alphabet.push(Op::ReadAll { keys: vec![1, 2] });
    SeqSpec {
        name: format!("seq/sweep-exactness/shards{}/W={}", shards, w),
        setup: Setup { weight: w, shards, buffer: 64, weight_fn: WeightFn::Const { c: 30, ttl_extra: 24 }, ..Setup::default() },
        world: Default::default(),
        prefix: vec![],
        alphabet,
        depth: if quick { 5 } else { 6 },
        allow: Some(Arc::new(|_h, present, a| match a {
            Op::Upsert { k, value: false, .. } => present.contains(k),
            _ => true,
        })),
        oracle: seq_oracle(),
        keys: vec![1, 2, 3],
        canon_sketch: false,
        ghost_key: Some(ghost_key(true)),
        max_states: if quick { 80_000 } else { 3_000_000 },
        time_cap_s: if quick { 15.0 } else { 900.0 },
    }
}

/// Many keys due in one visit of one shard (more than any per-visit or lifetime budget a sweeper might have): the history
/// starts after `n` puts with the same time-to-live; every sweep still removes exactly the keys that are due, releases
/// their weight, and a second generation is swept like the first.
fn many_keys_spec(ctx: &Ctx, n: u64) -> SeqSpec {
    let quick = ctx.quick();
    let prefix: Vec<Op> = (1..=n).map(|k| Op::Put { k, w: Some(1), ttl_ms: Some(1000) }).collect();
    SeqSpec {
        name: format!("seq/sweep-exactness/many-keys-due-at-once/n={}", n),
        setup: Setup { weight: 10_000, shards: 2, buffer: 64, weight_fn: WeightFn::Const { c: 30, ttl_extra: 24 }, ..Setup::default() },
        world: Default::default(),
        prefix,
        alphabet: vec![
            Op::Advance { ms: 1000 },
            Op::Advance { ms: 2000 },
            Op::TickWait,
            Op::ReadAll { keys: vec![1, n] },
            Op::Put { k: n, w: Some(1), ttl_ms: Some(1000) },
            Op::Put { k: n + 1, w: Some(1), ttl_ms: Some(1000) },
            Op::Delete { k: 1 },
        ],
        depth: if quick { 6 } else { 8 },
        allow: None,
        oracle: seq_oracle(),
        keys: (1..=n + 1).collect(),
        canon_sketch: false,
        ghost_key: Some(ghost_key(true)),
        max_states: if quick { 80_000 } else { 3_000_000 },
        time_cap_s: if quick { 10.0 } else { 600.0 },
    }
}

fn ilv_oracle() -> Oracle {
    let loss = c03::ilv_oracle();
    Arc::new(move |run: &Run, out: &mut Vec<crate::harness::ilv::Finding>| {
        use crate::harness::ilv::Finding;
        loss(run, out);
        for f in accounting_violations(&run.obs_end) {
            out.push(Finding::new("accounting", "sweep:accounting-broken", f));
        }
        // a key that is still held with an expiry stays registered with exactly that expiry, in that expiry's shard:
        // otherwise no sweep will ever find it ("every key whose current expiry has passed is eventually removed")
        {
            let shards = run.program.setup.shards as u64;
            for e in run.obs_end.store.iter() {
                if let Some(x) = e.3 {
                    let sh = ((x / 1000) % shards) as usize;
                    if !run.obs_end.ttl.iter().any(|t| t.0 == sh && t.1 == e.2 && t.2 == x) {
                        out.push(Finding::new("expiry-index-out-of-sync", "sweep:index-missing-current-expiry", format!("at quiescence key {} (id #{}) expires at {} but the expiry index has no such entry: {:?}", e.0, e.2, x - T0_MS, run.obs_end.ttl)));
                    }
                }
            }
        }
        // weight reclaimed: the total equals the sum over the keys still held of their last explicitly requested weight
        {
            let mut want: i64 = 0;
            let mut known = true;
            for e in run.obs_end.store.iter() {
                let last = run.calls.iter().filter(|c| c.op.key() == Some(e.0) && c.op.is_write()).filter(|c| matches!(run.status_of(c.thread, c.idx), Some(crate::cache::command::CommandStatus::Accepted))).max_by_key(|c| c.inv);
                match last.map(|c| &c.op) {
                    Some(Op::Put { w: Some(w), .. }) | Some(Op::Upsert { w: Some(w), .. }) => want += *w,
                    _ => known = false,
                }
            }
            let concurrent_writers = {
                let mut ks: Vec<(K, usize)> = run.calls.iter().filter(|c| c.thread < PHASE_INIT && c.op.is_write()).filter_map(|c| c.op.key().map(|k| (k, c.thread))).collect();
                ks.sort();
                ks.dedup();
                ks.windows(2).any(|w| w[0].0 == w[1].0)
            };
            if known && !concurrent_writers && run.obs_end.weight_used != want {
                out.push(Finding::new("weight-not-reclaimed", "sweep:total-differs-from-held-keys", format!("the keys still held were last given weights summing to {} but the total weight used is {}", want, run.obs_end.weight_used)));
            }
        }
        // quiescent end state: nothing is held whose expiry had passed at the instant of a sweep of its shard
        let shards = run.program.setup.shards as u64;
        let ticks: Vec<&Call> = run.calls.iter().filter(|c| matches!(c.op, Op::Tick | Op::TickWait)).collect();
        for e in run.obs_end.store.iter() {
            if let Some(x) = e.3 {
                for t in &ticks {
                    // the sweep ran at some instant between the tick call and the end of the window; only clock values
                    // that are certain (the clock no longer moved) are used
                    let t_now = t.now_ms_inv;
                    let clock_stable = run.calls.iter().all(|c| !matches!(c.op, Op::Advance { .. }) || c.ret < t.inv);
                    // the expiry must have been set before the sweep started to be the sweep's business
                    let set_before = run.calls.iter().all(|c| c.op.key() != Some(e.0) || !c.op.is_write() || c.ret < t.inv);
                    if clock_stable && set_before && (x / 1000) % shards == (t_now / 1000) % shards && t_now > x {
                        out.push(Finding::new("sweep-missed-expired-key", "sweep:missed-expired-key", format!("key {} (expiry {}) is still held although a sweep of its shard ran at t={}", e.0, x - T0_MS, t_now - T0_MS)));
                    }
                }
            }
        }
    })
}

fn ilv_programs() -> Vec<Program> {
    let mut v = Vec::new();
    let mk = |name: &str, w: i64, init: Vec<Op>, threads: Vec<Vec<Op>>| {
        let mut p = Program::new(name);
        p.setup = Setup { weight: w, ..Setup::default() };
        p.init = init;
        p.threads = threads;
        p.post = vec![get(1)];
        p
    };
    let ups = |k: K, value: bool, w: Option<i64>, ttl: Option<u64>, rm: bool| Op::Upsert { k, value, w, ttl_ms: ttl, remove_ttl: rm };
    // a key deleted and put again keeps its new incarnation when the old expiry comes due
    v.push(mk("k:delete;await;put(no ttl);await;get || {clock+3s;tick}", 1000, vec![put_ttl(1, 30, 1000)], vec![vec![del(1), Op::Await { call: 0 }, put(1, 30), Op::Await { call: 2 }, get(1)], vec![adv(3000), Op::Tick]]));
    // TTL changed to another shard / removed while the old expiry is swept
    v.push(mk("k:upsert(ttl 4s);await;get || {clock+3s;tick}", 1000, vec![put_ttl(1, 30, 1000)], vec![vec![ups(1, true, Some(30), Some(4000), false), Op::Await { call: 0 }, get(1)], vec![adv(3000), Op::Tick]]));
    v.push(mk("k:upsert(add ttl 9s);await;get || {clock+3s;tick} sweeping b", 1000, vec![put(1, 30), put_ttl(2, 30, 1000)], vec![vec![ups(1, true, Some(30), Some(9000), false), Op::Await { call: 0 }, get(1)], vec![adv(3000), Op::Tick]]));
    // the worker executes TTL commands while the sweep runs
    v.push(mk("put_ttl(c);delete(b) || {tick} (clock already past b's expiry)", 1000, vec![put(1, 30), put_ttl(2, 30, 1000), adv(3000)], vec![vec![put_ttl(3, 30, 2000), del(2)], vec![Op::Tick]]));
    // weight updates racing the sweep: of the swept key itself, and of another key
    v.push(mk("upsert(a,w) || {tick} sweeping a (expired)", 1000, vec![put_ttl(1, 30, 1000), put(2, 30), adv(3000)], vec![vec![ups(1, true, Some(20), None, false)], vec![Op::Tick]]));
    v.push(mk("upsert(b,w) || {tick} sweeping a (expired)", 1000, vec![put_ttl(1, 30, 1000), put(2, 30), adv(3000)], vec![vec![ups(2, true, Some(20), None, false)], vec![Op::Tick]]));
    // eviction racing the sweep of the same key
    {
        let mut p = mk("evicting-put(c) || {tick} sweeping a", 4, vec![put_ttl(1, 2, 1000), put(2, 1), adv(3000)], vec![vec![put(3, 3)], vec![Op::Tick]]);
        p.post = vec![get(3)];
        p.world.iter_order_is_choice = true;
        v.push(p);
    }
    {
        let mut p = mk("k:upsert(ttl 4s);await;get || delete(b);put_ttl(b, 9s) || {clock+3s;tick}", 1000, vec![put_ttl(1, 30, 1000), put_ttl(2, 30, 1000)], vec![
            vec![ups(1, true, Some(30), Some(4000), false), Op::Await { call: 0 }, get(1)],
            vec![del(2), put_ttl(2, 30, 9000)],
            vec![adv(3000), Op::Tick],
        ]);
        p.thorough_only = true;
        v.push(p);
    }
    v
}

pub fn def(ctx: &Ctx) -> PropertyDef {
    let quick = ctx.quick();
    let workers = ctx.workers;
    let mut scenarios: Vec<Scenario> = Vec::new();
    for (shards, w) in [(2usize, 10_000i64), (4, 10_000), (2, 100)] {
        if quick && shards == 4 {
            continue;
        }
        let name = seq_spec(ctx, shards, w).name;
        scenarios.push(seq_scenario(move |c| seq_spec(c, shards, w), &name));
    }
    for n in [20u64, 70] {
        let name = many_keys_spec(ctx, n).name;
        scenarios.push(seq_scenario(move |c| many_keys_spec(c, n), &name));
    }
    for p in crate::harness::ilv::for_tier(ilv_programs(), quick) {
        scenarios.push({
                let nthreads = p.threads.len();
                program_scenario(p, ilv_oracle(), move |c| crate::harness::ilv::tier_cfg(c, nthreads))
            });
    }
    let mut assumptions = COMMON_ASSUMPTIONS.to_vec();
    assumptions.push("sweeps are driven by manual ticks at chosen clock instants (the timer is a seam); 'eventually removed' is checked in its bounded form: a sweep of the key's shard at an instant past the expiry removes it");
    PropertyDef {
        id: "C10",
        technique: "explicit-state BFS over operation sequences with an exact removed-set oracle on every tick transition + stateless preemption-bounded model checking of sweeps racing worker commands and TTL upserts; real code",
        rule: "seq: canonical states first reached at depth >= 2; ilv: distinct overlapping call/return histories",
        assumptions,
        scenarios,
    }
}
