//! C03 - no spurious loss: without memory pressure an accepted key stays readable.
//!
//! seq: ghost (latest accepted value + deadline per key) versus the state snapshot after *every* step and
//!      versus every read variant, over histories with traffic on other keys, sketch ageing (tiny counter
//!      window, buffer size 1) and sweeps.
//! ilv: the operations on key k are sequential in one thread (each acknowledged before the next) while
//!      other clients, readers and the environment (clock + sweeper) run concurrently.
use super::c09::read_oracle;
use super::common::*;
use super::{Ctx, PropertyDef, Scenario, COMMON_ASSUMPTIONS};
use crate::cache::command::CommandStatus;
use crate::harness::ilv::{program_scenario, IlvCfg, Oracle, Program, Run};
use crate::harness::kit::*;
use crate::harness::seq::*;
use std::sync::Arc;

fn seq_oracle() -> SeqOracle {
    let reads = read_oracle(false);
    Arc::new(move |run: &SeqRun, out: &mut Vec<Finding>| {
        reads(run, out);
        // after every step: every key the ghost says is live (and not past its deadline) is still held with its value
        let i = run.last();
        let ghost = ghost_after(run, i + 1, false);
        let a = run.after();
        for (k, e) in ghost.iter() {
            if let Some(Some(v)) = expected_read(&ghost, *k, a.now_ms) {
                let (got, specified) = model_read(a, *k);
                if specified && got != Some(v) {
                    // was it already wrong before this step? then an earlier transition is to blame
                    let gb = ghost_after(run, i, false);
                    let before_ok = match expected_read(&gb, *k, run.before().now_ms) {
                        Some(Some(vb)) => model_read(run.before(), *k).0 == Some(vb),
                        _ => true,
                    };
                    if before_ok {
                        out.push(Finding::new(
                            "accepted-key-lost",
                            format!("loss:{}", if got.is_none() { "key-vanished" } else { "value-altered" }),
                            format!("after {} key {} reads {:?} in the state snapshot, but its latest accepted write (step {}) is {} with deadline {:?} and t={}", run.calls[i].op.short(), k, got, e.by, v, e.deadline.map(|d| d - T0_MS), a.now_ms - T0_MS),
                        ));
                    }
                }
            }
        }
    })
}

fn seq_spec(ctx: &Ctx, shards: usize) -> SeqSpec {
    let quick = ctx.quick();
    let mut alphabet: Vec<Op> = Vec::new();
    for k in [1u64, 2] {
        alphabet.push(Op::Put { k, w: Some(30), ttl_ms: None });
        alphabet.push(Op::Put { k, w: Some(30), ttl_ms: Some(2000) });
        if k == 1 {
            alphabet.push(Op::Put { k, w: Some(30), ttl_ms: Some(5000) });
        }
        alphabet.push(Op::Upsert { k, value: true, w: None, ttl_ms: None, remove_ttl: false });
        alphabet.push(Op::Upsert { k, value: false, w: None, ttl_ms: Some(5000), remove_ttl: false });
        alphabet.push(Op::Upsert { k, value: false, w: None, ttl_ms: None, remove_ttl: true });
        alphabet.push(Op::Delete { k });
        alphabet.push(Op::Read { k, variant: ReadVariant::Get });
    }
    alphabet.push(Op::Upsert { k: 1, value: true, w: Some(40), ttl_ms: Some(2000), remove_ttl: false });
    alphabet.push(Op::Advance { ms: 1000 });
    alphabet.push(Op::TickWait);
    alphabet.push(Op::ReadAll { keys: vec![1, 2] });
    SeqSpec {
        name: format!("seq/no-spurious-loss/shards{}", shards),
        // counters = 2: the sketch ages after every second recorded access; buffer 1: every second hit hands a buffer over
        setup: Setup { weight: 10_000, shards, counters: 2, buffer: 1, weight_fn: WeightFn::Const { c: 30, ttl_extra: 24 }, ..Setup::default() },
        world: Default::default(),
        prefix: vec![],
        alphabet,
        depth: if quick { 5 } else { 6 },
        allow: Some(Arc::new(|_h, present, a| match a {
            Op::Upsert { k, value: false, .. } => present.contains(k),
            _ => true,
        })),
        oracle: seq_oracle(),
        keys: vec![1, 2],
        canon_sketch: true,
        ghost_key: Some(ghost_key(false)),
        max_states: if quick { 80_000 } else { 3_000_000 },
        time_cap_s: if quick { 20.0 } else { 900.0 },
    }
}

/// Histories that start with a key whose TTL has elapsed but which has not been swept (its expiry shard is not the one
/// the clock is on): whatever is put, upserted or read next, an accepted, undeleted key is not lost later - in
/// particular not when the sweeper finally reaches the old expiry.
fn unswept_spec(ctx: &Ctx, shards: usize) -> SeqSpec {
    let quick = ctx.quick();
    SeqSpec {
        name: format!("seq/no-spurious-loss/after-an-unswept-expiry/shards{}", shards),
        setup: Setup { weight: 10_000, shards, counters: 2, buffer: 1, weight_fn: WeightFn::Const { c: 30, ttl_extra: 24 }, ..Setup::default() },
        world: Default::default(),
        prefix: vec![Op::Put { k: 1, w: Some(30), ttl_ms: Some(1000) }, Op::Advance { ms: 2000 }],
        alphabet: vec![
            Op::Put { k: 1, w: Some(30), ttl_ms: None },
            Op::Put { k: 1, w: Some(30), ttl_ms: Some(9000) },
            Op::Upsert { k: 1, value: true, w: None, ttl_ms: None, remove_ttl: true },
            Op::Upsert { k: 1, value: true, w: Some(40), ttl_ms: Some(9000), remove_ttl: false },
            Op::Delete { k: 1 },
            Op::Advance { ms: 1000 },
            Op::TickWait,
            Op::ReadAll { keys: vec![1] },
        ],
        depth: if quick { 6 } else { 8 },
        allow: None,
        oracle: seq_oracle(),
        keys: vec![1],
        canon_sketch: true,
        ghost_key: Some(ghost_key(false)),
        max_states: if quick { 80_000 } else { 3_000_000 },
        time_cap_s: if quick { 10.0 } else { 600.0 },
    }
}

/// A cache that is exactly as large as everything that can be demanded at once (three keys of weight 30, W = 90): keys
/// come and go (deletes, expiries, re-puts with and without TTL); whatever the bookkeeping did with the departed lives,
/// the live keys always fit and none may be lost.
fn exact_fit_spec(ctx: &Ctx, colliding: bool) -> SeqSpec {
    let quick = ctx.quick();
    SeqSpec {
        // colliding: a user-supplied key hash under which every key has the same hash value
        name: format!("seq/no-spurious-loss/exact-fit/W=90{}", if colliding { "/all-keys-one-hash" } else { "" }),
        setup: Setup { weight: 90, shards: 2, counters: 2, buffer: 1, weight_fn: WeightFn::Const { c: 30, ttl_extra: 0 }, hash_fn: if colliding { HashFn::Constant(7) } else { HashFn::Identity }, ..Setup::default() },
        world: Default::default(),
        prefix: vec![],
        alphabet: vec![
            Op::Put { k: 1, w: Some(30), ttl_ms: Some(1000) },
            Op::Put { k: 1, w: Some(30), ttl_ms: None },
            Op::Delete { k: 1 },
            Op::Put { k: 2, w: Some(30), ttl_ms: Some(5000) },
            Op::Put { k: 2, w: None, ttl_ms: None },
            Op::Delete { k: 2 },
            Op::Put { k: 3, w: Some(30), ttl_ms: None },
            Op::Advance { ms: 1000 },
            Op::Advance { ms: 2000 },
            Op::TickWait,
            Op::ReadAll { keys: vec![1, 2, 3] },
        ],
        depth: if quick { 6 } else { 8 },
        allow: None,
        oracle: seq_oracle(),
        keys: vec![1, 2, 3],
        canon_sketch: true,
        ghost_key: Some(ghost_key(false)),
        max_states: if quick { 80_000 } else { 3_000_000 },
        time_cap_s: if quick { 10.0 } else { 600.0 },
    }
}

/// Several keys whose expiries fall into the same second (hence the same expiry shard) at different instants, and a clock
/// that stops between them: a sweep removes the ones that are due and only those.
fn same_second_spec(ctx: &Ctx) -> SeqSpec {
    let quick = ctx.quick();
    SeqSpec {
        name: "seq/no-spurious-loss/expiries-within-one-second".into(),
        setup: Setup { weight: 10_000, shards: 2, counters: 2, buffer: 1, weight_fn: WeightFn::Const { c: 30, ttl_extra: 24 }, ..Setup::default() },
        world: Default::default(),
        prefix: vec![],
        alphabet: vec![
            Op::Put { k: 1, w: Some(30), ttl_ms: Some(100) },
            Op::Put { k: 2, w: Some(30), ttl_ms: Some(900) },
            Op::Put { k: 3, w: Some(30), ttl_ms: Some(100) },
            Op::Put { k: 1, w: Some(30), ttl_ms: Some(900) },
            Op::Advance { ms: 500 },
            Op::Advance { ms: 2000 },
            Op::TickWait,
            Op::ReadAll { keys: vec![1, 2, 3] },
        ],
        depth: if quick { 6 } else { 8 },
        allow: None,
        oracle: seq_oracle(),
        keys: vec![1, 2, 3],
        canon_sketch: true,
        ghost_key: Some(ghost_key(false)),
        max_states: if quick { 80_000 } else { 3_000_000 },
        time_cap_s: if quick { 10.0 } else { 600.0 },
    }
}

/// Histories that start with a time-to-live that was shortened (into another expiry shard) and then lengthened or removed:
/// the clock walks through the first two deadlines with sweeps at every position; the key must survive both.
fn ttl_chain_spec(ctx: &Ctx, shards: usize, remove: bool) -> SeqSpec {
    let quick = ctx.quick();
    let last = if remove { Op::Upsert { k: 1, value: false, w: None, ttl_ms: None, remove_ttl: true } } else { Op::Upsert { k: 1, value: false, w: None, ttl_ms: Some(60_000), remove_ttl: false } };
    SeqSpec {
        name: format!("seq/no-spurious-loss/ttl-shortened-then-{}/shards{}", if remove { "removed" } else { "lengthened" }, shards),
        setup: Setup { weight: 10_000, shards, counters: 2, buffer: 1, weight_fn: WeightFn::Const { c: 30, ttl_extra: 24 }, ..Setup::default() },
        world: Default::default(),
        prefix: vec![Op::Put { k: 1, w: Some(30), ttl_ms: Some(5000) }, Op::Upsert { k: 1, value: false, w: None, ttl_ms: Some(2000), remove_ttl: false }, last],
        alphabet: vec![
            Op::Advance { ms: 1000 },
            Op::Advance { ms: 3000 },
            Op::TickWait,
            Op::ReadAll { keys: vec![1] },
            Op::Upsert { k: 1, value: true, w: None, ttl_ms: None, remove_ttl: false },
            Op::Upsert { k: 1, value: false, w: None, ttl_ms: Some(3000), remove_ttl: false },
        ],
        depth: if quick { 6 } else { 9 },
        allow: Some(Arc::new(|_h, present, a| match a {
            Op::Upsert { k, value: false, .. } => present.contains(k),
            _ => true,
        })),
        oracle: seq_oracle(),
        keys: vec![1],
        canon_sketch: true,
        ghost_key: Some(ghost_key(false)),
        max_states: if quick { 80_000 } else { 3_000_000 },
        time_cap_s: if quick { 10.0 } else { 600.0 },
    }
}

// ---------------------------------------------------------------------------------------------- ilv
/// Thread 0 works on key 1 sequentially (every write awaited); its reads of key 1 must see the latest
/// accepted value unless the clock may have passed the deadline.
pub fn ilv_oracle() -> Oracle {
    Arc::new(|run: &Run, out: &mut Vec<crate::harness::ilv::Finding>| {
        use crate::harness::ilv::Finding;
        let k: K = 1;
        let mut cur: Option<(V, Option<u64>, String)> = None;
        // prologue state of key 1
        for c in run.calls.iter().filter(|c| c.thread == PHASE_INIT) {
            if let Op::Put { k: pk, ttl_ms, .. } = &c.op {
                if *pk == k && run.status_of(PHASE_INIT, c.idx) == Some(CommandStatus::Accepted) {
                    cur = Some((c.value.unwrap(), ttl_ms.map(|t| c.now_ms_inv + t), c.short()));
                }
            }
        }
        let mut t0: Vec<&Call> = run.calls.iter().filter(|c| c.thread == 0).collect();
        t0.sort_by_key(|c| c.idx);
        let mut post: Vec<&Call> = run.calls.iter().filter(|c| c.thread == PHASE_POST).collect();
        post.sort_by_key(|c| c.idx);
        for c in t0.into_iter().chain(post.into_iter()) {
            let st = run.status_of(c.thread, c.idx);
            match &c.op {
                Op::Put { k: pk, ttl_ms, .. } if *pk == k => {
                    if st == Some(CommandStatus::Accepted) {
                        // the deadline is computed by the worker: between the clock at invocation and at acknowledgement
                        cur = Some((c.value.unwrap(), ttl_ms.map(|t| c.now_ms_inv + t), c.short()));
                    }
                }
                Op::Upsert { k: pk, value, ttl_ms, remove_ttl, .. } if *pk == k => {
                    let put_path = matches!(&c.res, Res::Write { sent: Some(s), .. } if s == "Put" || s == "PutWithTTL");
                    if put_path {
                        if st == Some(CommandStatus::Accepted) {
                            cur = Some((c.value.unwrap(), ttl_ms.map(|t| c.now_ms_inv + t), c.short()));
                        }
                    } else if let Some((v, d, by)) = cur.as_mut() {
                        if *value {
                            *v = c.value.unwrap();
                        }
                        if *remove_ttl {
                            *d = None;
                        } else if let Some(t) = ttl_ms {
                            *d = Some(c.now_ms_inv + t);
                        }
                        *by = c.short();
                    }
                }
                Op::Delete { k: pk } if *pk == k => {
                    cur = None;
                }
                Op::Read { k: rk, .. } if *rk == k => {
                    if let (Some((v, d, by)), Res::Read(got)) = (&cur, &c.res) {
                        // live for sure if the clock at the end of the read is still before the earliest possible deadline
                        let surely_live = d.map(|d| c.now_ms_ret < d).unwrap_or(true);
                        if surely_live && *got != Some(*v) {
                            // D7's shape: the sweeper finished a sweep between the invocation and the return of a TTL-changing
                            // (new TTL or TTL removal) upsert of this key
                            let stale_index_race = run.calls.iter().any(|u| {
                                u.thread == 0 && matches!(&u.op, Op::Upsert { k: uk, ttl_ms, remove_ttl, .. } if *uk == k && (ttl_ms.is_some() || *remove_ttl)) && run.events.iter().any(|e| e.kind == "sweep_done" && e.seq > u.inv && e.seq < u.ret)
                            });
                            let sig = if got.is_none() && stale_index_race { "loss:ttl-upsert-overtaken-by-sweep-of-stale-expiry" } else if got.is_none() { "loss:key-vanished" } else { "loss:value-altered" };
                            out.push(Finding::new("accepted-key-lost", sig, format!("{} returned {:?} but the latest acknowledged write to key {} is {} (value {}, deadline {:?}, clock {})", c.short(), got, k, by, v, d.map(|d| d - T0_MS), c.now_ms_ret - T0_MS)));
                        }
                    }
                }
                _ => {}
            }
        }
    })
}

fn ups(k: K, value: bool, w: Option<i64>, ttl: Option<u64>, rm: bool) -> Op {
    Op::Upsert { k, value, w, ttl_ms: ttl, remove_ttl: rm }
}

pub fn ilv_programs() -> Vec<Program> {
    let mut v = Vec::new();
    let mk = |name: &str, init: Vec<Op>, threads: Vec<Vec<Op>>| {
        let mut p = Program::new(name);
        p.setup = Setup { weight: 1000, counters: 2, buffer: 1, ..Setup::default() };
        p.world.dash_single_shard = true;
        p.init = init;
        p.threads = threads;
        p.post = vec![get(1)];
        p
    };
    // (i) another client works on other keys behind the same shard locks
    v.push(mk("k:put;await;get || other:put(b);delete(b)", vec![], vec![vec![put(1, 30), Op::Await { call: 0 }, get(1)], vec![put(2, 30), del(2)]]));
    v.push(mk("k:upsert(v);get;delete;await;put;await;get || other:upsert(b)", vec![put(1, 30), put(2, 30)], vec![vec![ups(1, true, None, None, false), get(1), del(1), Op::Await { call: 2 }, put(1, 30), Op::Await { call: 4 }, get(1)], vec![ups(2, true, Some(31), None, false)]]));
    {
        // another client's TTL key is put concurrently and swept later: the sweep must not touch k
        let mut p = mk("k:put;await;get || other:put_ttl(b) ; then clock+3s;tick", vec![], vec![vec![put(1, 30), Op::Await { call: 0 }, get(1)], vec![put_ttl(2, 30, 1000)]]);
        p.post = vec![adv(3000), Op::TickWait, get(1)];
        v.push(p);
    }
    // (ii) readers hammer a second key through buffer hand-overs and sketch ageing
    v.push(mk("k:upsert(v);get || reader:get(b)x4", vec![put(1, 30), put(2, 30)], vec![vec![ups(1, true, None, None, false), get(1)], vec![get(2), get(2), get(2), get(2)]]));
    // (iii) the environment advances the clock and ticks: TTL extension / removal / expiry of another key
    v.push(mk("k:upsert(ttl+50s);await;get || {clock+7s;tick}", vec![put_ttl(1, 30, 5000)], vec![vec![ups(1, true, Some(30), Some(50_000), false), Op::Await { call: 0 }, get(1)], vec![adv(7000), Op::Tick]]));
    v.push(mk("k:upsert(remove-ttl);await;get || {clock+7s;tick}", vec![put_ttl(1, 30, 5000)], vec![vec![ups(1, true, Some(30), None, true), Op::Await { call: 0 }, get(1)], vec![adv(7000), Op::Tick]]));
    v.push(mk("k:get;get || {clock+3s;tick} sweeping b", vec![put(1, 30), put_ttl(2, 30, 1000)], vec![vec![get(1), get(1)], vec![adv(3000), Op::Tick]]));
    v.push(mk("k:put(ttl 20s);await;get || {clock+3s;tick} sweeping b || get(b)", vec![put_ttl(2, 30, 1000)], vec![vec![put_ttl(1, 30, 20_000), Op::Await { call: 0 }, get(1)], vec![adv(3000), Op::Tick], vec![get(2)]]));
    // (iv) traffic on another key must not leave weight behind that later turns a put that fits into an evicting put:
    // two puts of b in flight at once (one is refused), then c (k 40 + b 30 + c 10 <= W = 105: no memory pressure)
    for (name, threads) in [
        ("k:get || other:put_ttl(b);put_ttl(b) unawaited ; then put(c) that fits;get(k)", vec![vec![get(1)], vec![put_ttl(2, 30, 9000), put_ttl(2, 30, 9000)]]),
        ("k:get || other:put(b);put_ttl(b) unawaited ; then put(c) that fits;get(k)", vec![vec![get(1)], vec![put(2, 30), put_ttl(2, 30, 9000)]]),
        ("k:get || other:delete(b);put(b);delete(b) unawaited ; then put(c) that fits;get(k)", vec![vec![get(1)], vec![del(2), put(2, 30), del(2)]]),
    ] {
        let mut p = mk(name, vec![put(1, 40)], threads);
        if name.contains("delete(b)") {
            p.init.push(put(2, 30));
        }
        p.setup.weight = 105;
        p.post = vec![put(3, 10), get(1)];
        v.push(p);
    }
    {
        // the worker charges a new key while the sweeper releases an expired one: afterwards a put that fits must not
        // push k out (k 40 + c 20 + d 35 <= W = 105; b has been swept)
        let mut p = mk("k:get(miss) || other:put(c) || {tick} sweeping b ; then put(d) that fits;get(k)", vec![put(1, 40), put_ttl(2, 30, 1000), adv(3000)], vec![vec![get(9)], vec![put(3, 20)], vec![Op::Tick]]);
        p.setup.weight = 105;
        p.post = vec![put(4, 35), get(1)];
        v.push(p);
    }
    {
        let mut p = mk("k:put_ttl(9s);await;upsert(v);get;upsert(remove-ttl);await;get || other:put_ttl(b);delete(b) || {clock+3s;tick}", vec![], vec![
            vec![put_ttl(1, 30, 9000), Op::Await { call: 0 }, ups(1, true, None, None, false), get(1), ups(1, true, Some(30), None, true), Op::Await { call: 4 }, get(1)],
            vec![put_ttl(2, 30, 1000), del(2)],
            vec![adv(3000), Op::Tick],
        ]);
        p.thorough_only = true;
        v.push(p);
    }
    v
}

pub fn def(ctx: &Ctx) -> PropertyDef {
    let quick = ctx.quick();
    let workers = ctx.workers;
    let mut scenarios: Vec<Scenario> = Vec::new();
    for shards in [2usize, 4] {
        if quick && shards == 4 {
            continue;
        }
        let name = seq_spec(ctx, shards).name;
        scenarios.push(seq_scenario(move |c| seq_spec(c, shards), &name));
    }
    for shards in [2usize, 4] {
        let name = unswept_spec(ctx, shards).name;
        scenarios.push(seq_scenario(move |c| unswept_spec(c, shards), &name));
    }
    scenarios.push(seq_scenario(|c| exact_fit_spec(c, false), "seq/no-spurious-loss/exact-fit/W=90"));
    scenarios.push(seq_scenario(|c| exact_fit_spec(c, true), "seq/no-spurious-loss/exact-fit/W=90/all-keys-one-hash"));
    scenarios.push(seq_scenario(same_second_spec, "seq/no-spurious-loss/expiries-within-one-second"));
    for shards in [2usize, 4] {
        for remove in [false, true] {
            let name = ttl_chain_spec(ctx, shards, remove).name;
            scenarios.push(seq_scenario(move |c| ttl_chain_spec(c, shards, remove), &name));
        }
    }
    for p in crate::harness::ilv::for_tier(ilv_programs(), quick) {
        let three = p.threads.len() >= 3;
        scenarios.push({
                let nthreads = p.threads.len();
                program_scenario(p, ilv_oracle(), move |c| crate::harness::ilv::tier_cfg(c, nthreads))
            });
    }
    let mut assumptions = COMMON_ASSUMPTIONS.to_vec();
    assumptions.push("total demanded weight always fits (W = 1000..10000); a read is required to return the value only if the clock at the end of the read is still before the deadline computed from the clock at the write's invocation");
    PropertyDef {
        id: "C03",
        technique: "explicit-state BFS over operation sequences (ghost of latest accepted value/deadline vs. state snapshot on every transition) + stateless preemption-bounded model checking of sequential-per-key clients against concurrent traffic, clock and sweeper; real code",
        rule: "seq: canonical states first reached at depth >= 2; ilv: distinct overlapping call/return histories",
        assumptions,
        scenarios,
    }
}
