//! C16 - statistics are exact at quiescence.
//!
//! seq: per transition, the deltas of the counters must match what the step did to the cache
//! (lookups, held keys, total weight, puts refused by admission); per state the hit ratio formula.
use super::common::*;
use super::{Ctx, PropertyDef, Scenario, COMMON_ASSUMPTIONS};
use crate::harness::kit::*;
use crate::harness::ilv::{program_scenario, IlvCfg, Oracle, Program, Run};
use crate::harness::seq::*;
use std::sync::Arc;

/// After concurrent operations (the statistics counters are scheduling points here) the identities hold at quiescence.
fn ilv_oracle() -> Oracle {
    Arc::new(|run: &Run, out: &mut Vec<crate::harness::ilv::Finding>| {
        use crate::harness::ilv::Finding;
        let o = &run.obs_end;
        let lookups: u64 = run.calls.iter().filter(|c| c.thread != PHASE_POST).map(|c| lookups(&c.op)).sum();
        let returned: u64 = run
            .calls
            .iter()
            .filter(|c| c.thread != PHASE_POST)
            .map(|c| match &c.res {
                Res::Read(v) => v.is_some() as u64,
                Res::MultiRead(vs) => vs.iter().filter(|v| v.is_some()).count() as u64,
                _ => 0,
            })
            .sum();
        if o.stats[HITS] + o.stats[MISSES] != lookups {
            out.push(Finding::new("hits+misses", "stats:hits+misses!=lookups", format!("{} lookups were performed but hits+misses = {}+{}", lookups, o.stats[HITS], o.stats[MISSES])));
        }
        if o.stats[HITS] != returned {
            out.push(Finding::new("hits", "stats:hits!=successful-lookups", format!("{} lookups returned a value but CacheHits = {}", returned, o.stats[HITS])));
        }
        if o.stats[KEYS_ADDED] as i64 - o.stats[KEYS_DELETED] as i64 != o.store.len() as i64 {
            out.push(Finding::new("keys-identity", "stats:keys-identity", format!("KeysAdded-KeysDeleted = {}-{} but {} keys are held", o.stats[KEYS_ADDED], o.stats[KEYS_DELETED], o.store.len())));
        }
        if o.stats[WEIGHT_ADDED].wrapping_sub(o.stats[WEIGHT_REMOVED]) as i64 != o.weight_used {
            out.push(Finding::new("weight-identity", "stats:weight_added-weight_removed!=used", format!("WeightAdded-WeightRemoved = {}-{} but the total weight used is {}", o.stats[WEIGHT_ADDED], o.stats[WEIGHT_REMOVED], o.weight_used)));
        }
        let refused = run.calls.iter().filter(|c| c.thread != PHASE_POST && (matches!(c.op, Op::Put { .. }) || is_put_path(c)) && rejected_by_admission(run.status_of(c.thread, c.idx))).count() as u64;
        if o.stats[KEYS_REJECTED] != refused {
            out.push(Finding::new("keys-rejected", "stats:keys_rejected!=admission-refusals", format!("{} puts were refused by admission but KeysRejected = {}", refused, o.stats[KEYS_REJECTED])));
        }
        let (h, m) = (o.stats[HITS], o.stats[MISSES]);
        let expect = if h + m == 0 { 0.0 } else { h as f64 / (h + m) as f64 };
        if (o.hit_ratio - expect).abs() > 1e-12 {
            out.push(Finding::new("hit-ratio", "stats:hit-ratio", format!("hits={} misses={} but hit_ratio={}", h, m, o.hit_ratio)));
        }
    })
}

fn ilv_programs() -> Vec<Program> {
    let mut v = Vec::new();
    let mk = |name: &str, w: i64, init: Vec<Op>, threads: Vec<Vec<Op>>| {
        let mut p = Program::new(name);
        p.setup = Setup { weight: w, buffer: 2, ..Setup::default() };
        p.world.stats_atomics_are_points = true;
        p.world.iter_order_is_choice = w < 10;
        p.init = init;
        p.threads = threads;
        p
    };
    v.push(mk("get(a);get(c) || get(a);get(b)", 100, vec![put(1, 2), put(2, 2)], vec![vec![get(1), get(3)], vec![get(1), get(2)]]));
    {
        // lookups of a key whose delete is in flight (soft-deleted, command not yet executed) are lookups too
        let mut p = mk("delete(a);get(a);get_ref(a) || get(a) [worker stopped]", 100, vec![put(1, 2)], vec![vec![del(1), get(1), Op::Read { k: 1, variant: ReadVariant::GetRef }], vec![get(1)]]);
        p.frozen = vec![crate::harness::ilv::Role::Worker];
        v.push(p);
    }
    v.push(mk("put(c) || put(d) || get(a)", 100, vec![put(1, 2)], vec![vec![put(3, 2)], vec![put(4, 3)], vec![get(1)]]));
    v.push(mk("evicting-put(c) || delete(b);get(a)", 4, vec![put(1, 2), put(2, 1)], vec![vec![put(3, 3)], vec![del(2), get(1)]]));
    v.push(mk("upsert(a,w=1) || upsert(b,w=3) || multi_get([a,b])", 100, vec![put(1, 2), put(2, 2)], vec![
        vec![Op::Upsert { k: 1, value: true, w: Some(1), ttl_ms: None, remove_ttl: false }],
        vec![Op::Upsert { k: 2, value: true, w: Some(3), ttl_ms: None, remove_ttl: false }],
        vec![Op::MultiRead { keys: vec![1, 2], variant: ReadVariant::MultiGet }],
    ]));
    // duplicates refused by the worker (two puts of one new key in flight) are not admission refusals
    v.push(mk("put(c) || put(c)", 100, vec![put(1, 2)], vec![vec![put(3, 2)], vec![put(3, 3)]]));
    v.push(mk("put(c);put_ttl(c);upsert-as-put(c) unawaited", 100, vec![put(1, 2)], vec![vec![put(3, 2), put_ttl(3, 3, 5000), Op::Upsert { k: 3, value: true, w: Some(4), ttl_ms: None, remove_ttl: false }]]));
    // the two writers of the total weight: the worker (weight update / delete / evicting put) and the sweeper
    v.push(mk("upsert(a,w=5) || {tick} sweeping b", 100, vec![put(1, 2), put_ttl(2, 3, 1000), adv(3000)], vec![
        vec![Op::Upsert { k: 1, value: true, w: Some(5), ttl_ms: None, remove_ttl: false }],
        vec![Op::Tick],
    ]));
    v.push(mk("delete(a);put(c) || {tick} sweeping b", 100, vec![put(1, 2), put_ttl(2, 3, 1000), adv(3000)], vec![vec![del(1), put(3, 4)], vec![Op::Tick]]));
    v.push(mk("evicting-put(c) || {tick} sweeping b", 6, vec![put(1, 2), put_ttl(2, 3, 1000), adv(3000)], vec![vec![put(3, 5)], vec![Op::Tick]]));
    v
}

fn lookups(op: &Op) -> u64 {
    match op {
        Op::Read { .. } => 1,
        Op::MultiRead { keys, .. } => keys.len() as u64,
        Op::ReadAll { keys } => (keys.len() * ALL_READ_VARIANTS.len()) as u64,
        _ => 0,
    }
}

pub fn oracle() -> SeqOracle {
    Arc::new(|run: &SeqRun, out: &mut Vec<Finding>| {
        let i = run.last();
        if run.ops[..=i].iter().any(|o| matches!(o, Op::Shutdown)) {
            return; // counters are cleared by shutdown
        }
        let c = &run.calls[i];
        let (b, a) = (run.before(), run.after());
        let d = |ix: usize| a.stats[ix].wrapping_sub(b.stats[ix]);
        let want = lookups(&c.op);
        if d(HITS) + d(MISSES) != want {
            out.push(Finding::new("hits+misses", "stats:hits+misses!=lookups", format!("{} performed {} lookups but hits+misses moved by {}+{}", c.op.short(), want, d(HITS), d(MISSES))));
        }
        // hits = lookups that returned a value
        let returned = match &c.res {
            Res::Read(v) => v.is_some() as u64,
            Res::MultiRead(vs) => vs.iter().filter(|v| v.is_some()).count() as u64,
            _ => 0,
        };
        if want > 0 && d(HITS) != returned {
            out.push(Finding::new("hits", "stats:hits!=successful-lookups", format!("{} returned {} values but CacheHits moved by {}", c.op.short(), returned, d(HITS))));
        }
        let held = a.store.len() as i64 - b.store.len() as i64;
        let keys_delta = d(KEYS_ADDED) as i64 - d(KEYS_DELETED) as i64;
        if keys_delta != held {
            out.push(Finding::new("keys-added-deleted", "stats:keys_added-keys_deleted!=held", format!("{}: held keys changed by {} but KeysAdded-KeysDeleted changed by {} (+{} / -{})", c.op.short(), held, keys_delta, d(KEYS_ADDED), d(KEYS_DELETED))));
        }
        let wdelta = d(WEIGHT_ADDED).wrapping_sub(d(WEIGHT_REMOVED)) as i64;
        if wdelta != a.weight_used - b.weight_used {
            out.push(Finding::new("weight-added-removed", "stats:weight_added-weight_removed!=used", format!("{}: total weight changed by {} but WeightAdded-WeightRemoved changed by {}", c.op.short(), a.weight_used - b.weight_used, wdelta)));
        }
        let refused = (matches!(c.op, Op::Put { .. }) || is_put_path(c)) && rejected_by_admission(run.statuses[i]);
        if d(KEYS_REJECTED) != refused as u64 {
            out.push(Finding::new("keys-rejected", "stats:keys_rejected!=admission-refusals", format!("{} (status {:?}) moved KeysRejected by {}", c.op.short(), run.statuses[i].map(|s| status_short(&s)), d(KEYS_REJECTED))));
        }
        // identities on the state itself (inductive from the deltas, but cheap to assert directly)
        if (a.stats[KEYS_ADDED] as i64 - a.stats[KEYS_DELETED] as i64) != a.store.len() as i64 {
            out.push(Finding::new("keys-identity", "stats:keys-identity", format!("KeysAdded-KeysDeleted={} but {} keys are held", a.stats[KEYS_ADDED] as i64 - a.stats[KEYS_DELETED] as i64, a.store.len())));
        }
        let (h, m) = (a.stats[HITS], a.stats[MISSES]);
        let expect = if h + m == 0 { 0.0 } else { h as f64 / (h + m) as f64 };
        if (a.hit_ratio - expect).abs() > 1e-12 {
            out.push(Finding::new("hit-ratio", if m == 0 && h > 0 { "stats:hit-ratio-zero-without-misses" } else { "stats:hit-ratio" }, format!("hits={} misses={} but hit_ratio={} (expected {})", h, m, a.hit_ratio, expect)));
        }
    })
}

fn spec(ctx: &Ctx, pressure: bool) -> SeqSpec {
    let quick = ctx.quick();
    let alphabet: Vec<Op> = if pressure {
        vec![
            put(1, 2),
            put(2, 2),
            put(3, 3),
            put(3, 9),
            put_ttl(2, 1, 1000),
            Op::Upsert { k: 1, value: true, w: Some(1), ttl_ms: None, remove_ttl: false },
            Op::Upsert { k: 1, value: true, w: Some(3), ttl_ms: None, remove_ttl: false },
            Op::Upsert { k: 3, value: true, w: Some(2), ttl_ms: None, remove_ttl: false },
            del(1),
            del(2),
            adv(2000),
            Op::TickWait,
            get(1),
            get(3),
            Op::MultiRead { keys: vec![1, 2, 3], variant: ReadVariant::MultiGet },
        ]
    } else {
        vec![
            put(1, 2),
            put_ttl(2, 3, 1000),
            Op::Put { k: 1, w: None, ttl_ms: None },
            Op::Upsert { k: 1, value: true, w: None, ttl_ms: None, remove_ttl: false },
            Op::Upsert { k: 2, value: true, w: Some(1), ttl_ms: Some(3000), remove_ttl: false },
            del(1),
            del(3),
            adv(2000),
            Op::TickWait,
            get(1),
            get(2),
            Op::ReadAll { keys: vec![1, 3] },
            Op::MultiRead { keys: vec![1, 2], variant: ReadVariant::MultiGetIterator },
            Op::MultiRead { keys: vec![1, 1, 3], variant: ReadVariant::MultiGet },
            Op::MultiRead { keys: vec![2, 2, 1], variant: ReadVariant::MultiGetMapIterator },
        ]
    };
    SeqSpec {
        name: format!("seq/stats-deltas/{}", if pressure { "W=4-evictions" } else { "W=100" }),
        setup: Setup { weight: if pressure { 4 } else { 100 }, buffer: 2, weight_fn: WeightFn::Const { c: 2, ttl_extra: 0 }, ..Setup::default() },
        world: Default::default(),
        prefix: vec![],
        alphabet,
        depth: if quick { 5 } else { 6 },
        allow: None,
        oracle: oracle(),
        keys: vec![1, 2, 3],
        canon_sketch: pressure,
        ghost_key: None,
        max_states: 3_000_000,
        time_cap_s: if quick { 20.0 } else { 600.0 },
    }
}

/// all-hit and all-miss workloads (the hit ratio must be 1.0 / 0.0)
fn spec_ratio(ctx: &Ctx) -> SeqSpec {
    SeqSpec {
        name: "seq/stats-deltas/all-hit-and-all-miss".to_string(),
        setup: Setup { weight: 100, buffer: 2, ..Setup::default() },
        world: Default::default(),
        prefix: vec![put(1, 2)],
        alphabet: vec![get(1), get(2), Op::ReadAll { keys: vec![1] }, Op::ReadAll { keys: vec![2] }, del(1)],
        depth: if ctx.quick() { 6 } else { 6 },
        allow: None,
        oracle: oracle(),
        keys: vec![1, 2],
        canon_sketch: true,
        ghost_key: None,
        max_states: 1_000_000,
        time_cap_s: 60.0,
    }
}

pub fn def(ctx: &Ctx) -> PropertyDef {
    let mut scenarios: Vec<Scenario> = Vec::new();
    for pressure in [false, true] {
        let name = spec(ctx, pressure).name;
        scenarios.push(seq_scenario(move |c| spec(c, pressure), &name));
    }
    scenarios.push(seq_scenario(spec_ratio, "seq/stats-deltas/all-hit-and-all-miss"));
    let quick = ctx.quick();
    let workers = ctx.workers;
    for p in ilv_programs() {
        let three = p.threads.len() >= 3;
        scenarios.push({
                let nthreads = p.threads.len();
                program_scenario(p, ilv_oracle(), move |c| crate::harness::ilv::tier_cfg(c, nthreads))
            });
    }
    let mut assumptions = COMMON_ASSUMPTIONS.to_vec();
    assumptions.push("counters are compared in delta form on every transition, so deduplicating states by a canonical form that drops the monotone counters loses nothing (DESIGN 3.4)");
    assumptions.push("in the all-hit scenario reads do not change the canonical state, so the hit ratio is checked after one read step from every reachable state rather than after long read runs");
    PropertyDef {
        id: "C16",
        technique: "explicit-state model checking of the real code: breadth-first search over operation sequences with canonical-state deduplication, counter identities checked in delta form on every transition; plus stateless preemption-bounded model checking of concurrent clients with the statistics counters as scheduling points, identities checked at quiescence",
        rule: "seq: all histories over the alphabet up to the depth; distinct_nontrivial = canonical states first reached at depth >= 2",
        assumptions,
        scenarios,
    }
}
