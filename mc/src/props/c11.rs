//! C11 - writes are applied exactly once, one at a time, in submission order.
use super::common::*;
use super::{Ctx, PropertyDef, Scenario, COMMON_ASSUMPTIONS};
use crate::cache::command::{CommandStatus, RejectionReason};
use crate::harness::ilv::*;
use crate::harness::kit::*;
use std::collections::BTreeMap;
use std::sync::Arc;

fn oracle() -> Oracle {
    oracle_with(true)
}

/// `final_state = false`: programs in which the sweeper or admission also remove keys, so that the sequential application
/// of the queued commands alone does not define the final contents - exactly-once, order, one at a time and "every
/// queued command is answered" are still decided.
fn oracle_with(final_state: bool) -> Oracle {
    Arc::new(move |run: &Run, out: &mut Vec<Finding>| {
        // (i) acknowledgements of a thread's queued calls complete in submission order (monitor)
        for h in &run.monitor_hits {
            out.push(Finding::new("ack-order", "order:ack-completed-out-of-order", h.clone()));
        }
        // queued calls, by acknowledgement id
        let mut queued: Vec<(&Call, i64, String)> = Vec::new();
        for c in run.calls.iter() {
            if let Res::Write { err: false, sent: Some(s), ack_id, .. } = &c.res {
                queued.push((c, *ack_id, s.clone()));
            }
        }
        let deq: Vec<(i64, u64, String)> = run.events.iter().filter(|e| e.kind == "worker_dequeued").map(|e| (e.data[0], e.seq, e.text.clone())).collect();
        // (ii) each queued command is dequeued exactly once, with the kind that was sent
        for (c, id, kind) in &queued {
            let n = deq.iter().filter(|d| d.0 == *id).count();
            if n != 1 {
                out.push(Finding::new("exactly-once", if n == 0 { "order:command-dropped" } else { "order:command-duplicated" }, format!("{} queued a {} command which the worker dequeued {} times", c.short(), kind, n)));
            } else if deq.iter().find(|d| d.0 == *id).unwrap().2 != *kind {
                out.push(Finding::new("command-kind", "order:command-kind-changed", format!("{} queued {} but the worker dequeued {}", c.short(), kind, deq.iter().find(|d| d.0 == *id).unwrap().2)));
            }
        }
        for d in &deq {
            if !queued.iter().any(|q| q.1 == d.0) {
                out.push(Finding::new("phantom-command", "order:phantom-command", format!("the worker dequeued a {} command nobody queued", d.2)));
            }
        }
        // order: a call that returned before another began is executed first (covers per-thread order)
        for (a, ida, _) in &queued {
            for (b, idb, _) in &queued {
                if a.ret < b.inv {
                    let (sa, sb) = (deq.iter().find(|d| d.0 == *ida).map(|d| d.1), deq.iter().find(|d| d.0 == *idb).map(|d| d.1));
                    if let (Some(sa), Some(sb)) = (sa, sb) {
                        if sa > sb {
                            let same = a.thread == b.thread;
                            out.push(Finding::new("submission-order", if same { "order:per-thread-order-violated" } else { "order:real-time-order-violated" }, format!("{} returned before {} was called, but the worker executed the latter first", a.short(), b.short())));
                        }
                    }
                }
            }
        }
        // one at a time: dequeue / ack events alternate
        let mut open: Option<i64> = None;
        for e in run.events.iter().filter(|e| e.kind == "worker_dequeued" || e.kind == "worker_acked") {
            if e.kind == "worker_dequeued" {
                if let Some(o) = open {
                    out.push(Finding::new("one-at-a-time", "order:commands-overlap", format!("the worker dequeued command {} while {} was not yet acknowledged", e.data[0], o)));
                }
                open = Some(e.data[0]);
            } else {
                open = None;
            }
        }
        if !final_state {
            for (c, _, kind) in &queued {
                match run.status_of(c.thread, c.idx) {
                    None | Some(CommandStatus::Pending) => out.push(Finding::new("never-answered", "order:command-never-answered", format!("{} queued a {} command whose acknowledgement never completed", c.short(), kind))),
                    _ => {}
                }
            }
            for f in accounting_violations(&run.obs_end) {
                out.push(Finding::new("accounting", "order:accounting-broken", f));
            }
            return;
        }
        // (iii) statuses and final state = sequential application in dequeue order (no memory pressure here)
        let mut model: BTreeMap<K, V> = BTreeMap::new();
        for e in run.obs_init.store.iter() {
            model.insert(e.0, e.1);
        }
        // upserts applied on the spot change the value at call time; order them with the commands by stamp
        let mut steps: Vec<(u64, usize)> = Vec::new(); // (stamp, index into run.calls)
        for (ci, c) in run.calls.iter().enumerate() {
            if c.thread == PHASE_INIT {
                continue;
            }
            match &c.res {
                Res::Write { err: false, sent: Some(kind), ack_id, .. } => {
                    if let Some(d) = deq.iter().find(|d| d.0 == *ack_id) {
                        steps.push((d.1, ci));
                        let _ = kind;
                    }
                }
                Res::Write { err: false, sent: None, .. } => steps.push((c.ret, ci)),
                _ => {}
            }
        }
        steps.sort();
        let mut expect_added = 0u64;
        let mut expect_deleted = 0u64;
        for (_, ci) in &steps {
            let c = &run.calls[*ci];
            let st = run.status_of(c.thread, c.idx);
            let kind = match &c.res {
                Res::Write { sent, .. } => sent.clone(),
                _ => None,
            };
            let k = c.op.key().unwrap();
            let want = match kind.as_deref() {
                Some("Put") | Some("PutWithTTL") => {
                    if model.contains_key(&k) {
                        CommandStatus::Rejected(RejectionReason::KeyAlreadyExists)
                    } else {
                        model.insert(k, c.value.unwrap());
                        expect_added += 1;
                        CommandStatus::Accepted
                    }
                }
                Some("Delete") => {
                    if model.remove(&k).is_some() {
                        expect_deleted += 1;
                        CommandStatus::Accepted
                    } else {
                        CommandStatus::Rejected(RejectionReason::KeyDoesNotExist)
                    }
                }
                Some("UpdateWeight") => {
                    // the value was already replaced on the caller's thread
                    if let (Some(v), Some(slot)) = (c.value, model.get_mut(&k)) {
                        *slot = v;
                    }
                    CommandStatus::Accepted
                }
                None => {
                    // answered on the spot
                    match &c.op {
                        Op::Upsert { .. } => {
                            if let (Some(v), Some(slot)) = (c.value, model.get_mut(&k)) {
                                *slot = v;
                            }
                        }
                        _ => {}
                    }
                    continue;
                }
                _ => continue,
            };
            if st != Some(want) {
                out.push(Finding::new("status-vs-sequential-order", "order:status-differs-from-sequential-application", format!("applying the queued commands in the order the worker dequeued them, {} must end with {} but its acknowledgement says {:?}", c.short(), status_short(&want), st.map(|s| status_short(&s)))));
            }
        }
        // the keys the sequential application leaves behind are readable (not merely stored)
        for (k, v) in model.iter() {
            let (r, spec) = model_read(&run.obs_end, *k);
            if spec && r != Some(*v) {
                out.push(Finding::new("final-state-unreadable", "order:final-key-not-readable", format!("applying the commands once each, in order, leaves key {} = {} but it reads {:?} (entry {:?})", k, v, r, run.obs_end.entry(*k))));
            }
        }
        // explicitly requested weights: per key, the last write (in application order) that named a weight decides what is charged
        {
            let mut wmodel: BTreeMap<K, i64> = BTreeMap::new();
            for e in run.obs_init.store.iter() {
                if let Some(w) = run.obs_init.weight_of_id(e.2) {
                    wmodel.insert(e.0, w);
                }
            }
            let mut present: std::collections::BTreeSet<K> = run.obs_init.store.iter().map(|e| e.0).collect();
            for (_, ci) in &steps {
                let c = &run.calls[*ci];
                let k = c.op.key().unwrap();
                let sent = match &c.res {
                    Res::Write { sent, .. } => sent.clone(),
                    _ => None,
                };
                match (&c.op, sent.as_deref()) {
                    (Op::Put { w: Some(w), .. }, Some(_)) | (Op::Upsert { w: Some(w), .. }, Some("Put")) | (Op::Upsert { w: Some(w), .. }, Some("PutWithTTL")) => {
                        if !present.contains(&k) {
                            present.insert(k);
                            wmodel.insert(k, *w);
                        }
                    }
                    (Op::Delete { .. }, Some(_)) => {
                        present.remove(&k);
                        wmodel.remove(&k);
                    }
                    (Op::Upsert { w: Some(w), .. }, _) => {
                        // an upsert of a stored key with an explicit weight: that weight is charged once acknowledged
                        if present.contains(&k) {
                            wmodel.insert(k, *w);
                        }
                    }
                    _ => {}
                }
            }
            for (k, w) in wmodel.iter() {
                if let Some(e) = run.obs_end.entry(*k) {
                    if run.obs_end.weight_of_id(e.2) != Some(*w) {
                        out.push(Finding::new("final-weight", "order:final-weight-differs-from-sequential-application", format!("applying the weight requests once each, in order, charges key {} with {} but {:?} is charged", k, w, run.obs_end.weight_of_id(e.2))));
                    }
                }
            }
        }
        let got: BTreeMap<K, V> = run.obs_end.store.iter().map(|e| (e.0, e.1)).collect();
        if got != model {
            out.push(Finding::new("final-state", "order:final-state-differs-from-sequential-application", format!("the cache ends with {:?} but applying the commands once each, in order, gives {:?}", got, model)));
        }
        let (da, dd) = (run.obs_end.stats[KEYS_ADDED] - run.obs_init.stats[KEYS_ADDED], run.obs_end.stats[KEYS_DELETED] - run.obs_init.stats[KEYS_DELETED]);
        if (da, dd) != (expect_added, expect_deleted) {
            out.push(Finding::new("applied-count", "order:keys-added-deleted-differ", format!("KeysAdded/KeysDeleted moved by {}/{} but the commands applied once each add {} and delete {}", da, dd, expect_added, expect_deleted)));
        }
        for f in accounting_violations(&run.obs_end) {
            out.push(Finding::new("accounting", "order:accounting-broken", f));
        }
        // (iv) put(k) directly followed by delete(k) on one thread leaves k absent
        for c in run.calls.iter() {
            if let Op::Put { k, .. } = &c.op {
                if let Some(n) = run.call(c.thread, c.idx + 1) {
                    if n.op == (Op::Delete { k: *k }) && c.thread < PHASE_INIT {
                        let later = run.calls.iter().any(|x| x.op.key() == Some(*k) && x.op.is_write() && x.inv > n.inv && x.thread < PHASE_INIT);
                        if !later && run.obs_end.entry(*k).is_some() {
                            out.push(Finding::new("put-then-delete", "order:put-then-delete-left-key", format!("{} followed by {} left key {} in the cache", c.short(), n.short(), k)));
                        }
                    }
                }
            }
        }
    })
}

fn programs() -> Vec<Program> {
    let mut v = Vec::new();
    let mk = |name: &str, queue: usize, init: Vec<Op>, threads: Vec<Vec<Op>>| {
        let mut p = Program::new(name);
        p.setup = Setup { weight: 100, queue, ..Setup::default() };
        p.init = init;
        p.threads = threads;
        p.monitor = MonitorKind::AckPrefix;
        p
    };
    let upw = |k: K, w: i64| Op::Upsert { k, value: true, w: Some(w), ttl_ms: None, remove_ttl: false };
    v.push(mk("burst: put a;put b;delete a;put a /queue1", 1, vec![], vec![vec![put(1, 2), put(2, 2), del(1), put(1, 3)]]));
    v.push(mk("burst: put a;delete a;put a;delete a /queue1", 1, vec![], vec![vec![put(1, 2), del(1), put(1, 3), del(1)]]));
    v.push(mk("burst: put a;put a;delete a;put b /queue2", 2, vec![], vec![vec![put(1, 2), put(1, 3), del(1), put(2, 2)]]));
    v.push(mk("burst: put_ttl a;put_ttl a;delete a;put b /queue2", 2, vec![], vec![vec![put_ttl(1, 2, 5000), put_ttl(1, 3, 5000), del(1), put(2, 2)]]));
    v.push(mk("burst: put a;put_ttl a;put a /queue2", 2, vec![], vec![vec![put(1, 2), put_ttl(1, 3, 5000), put(1, 4)]]));
    v.push(mk("bursts: put a;put b || put b;delete a /queue1", 1, vec![], vec![vec![put(1, 2), put(2, 2)], vec![put(2, 3), del(1)]]));
    v.push(mk("bursts: put a;delete a || put a;delete a /queue2", 2, vec![], vec![vec![put(1, 2), del(1)], vec![put(1, 3), del(1)]]));
    v.push(mk("real-time: put a;raise || wait;delete a /queue1", 1, vec![], vec![vec![put(1, 2), Op::RaiseFlag { flag: 0 }], vec![Op::WaitFlag { flag: 0 }, del(1)]]));
    v.push(mk("burst: upsert b(w3);upsert b(w4);delete b;put b /queue1", 1, vec![put(2, 2)], vec![vec![upw(2, 3), upw(2, 4), del(2), put(2, 5)]]));
    v.push(mk("delete a || put a /queue1", 1, vec![put(1, 2)], vec![vec![del(1)], vec![put(1, 3)]]));
    v.push(mk("burst: upsert b(w3);upsert b(w2 = initial) /queue1", 1, vec![put(2, 2)], vec![vec![upw(2, 3), upw(2, 2)]]));
    v.push(mk("bursts: put a;put_ttl b || delete b;put c || get a /queue1", 1, vec![put(2, 2)], vec![vec![put(1, 2), put_ttl(2, 2, 5000)], vec![del(2), put(3, 2)], vec![get(1)]]));
    for (name, q, threads) in [
        ("bursts: put a;delete a;put a || put b;put a;delete b /queue1", 1usize, vec![vec![put(1, 2), del(1), put(1, 3)], vec![put(2, 2), put(1, 4), del(2)]]),
        ("bursts: put a;put b || delete a;put c || put c;delete b /queue2", 2, vec![vec![put(1, 2), put(2, 2)], vec![del(1), put(3, 2)], vec![put(3, 3), del(2)]]),
    ] {
        let mut p = mk(name, q, vec![], threads);
        p.thorough_only = true;
        v.push(p);
    }
    // acknowledgements that are really awaited: 'complete' includes waking whoever waits, also when the acknowledgement was
    // polled from another context before (the waker of the latest poll is the one that counts)
    v.push(mk("burst: put a;put b;await(b);await(a) /queue1", 1, vec![], vec![vec![put(1, 2), put(2, 2), Op::Await { call: 1 }, Op::Await { call: 0 }]]));
    v.push(mk("burst: put a;delete a;poll_once(delete);await(delete) /queue2", 2, vec![], vec![vec![put(1, 2), del(1), Op::PollOnce { call: 1 }, Op::Await { call: 1 }]]));
    // the worker is not the only writer of the weight table: a queued weight change while the sweeper releases another key
    {
        let mut p = mk("burst: upsert a(w3);put c || {clock;tick} sweeping b /queue1", 1, vec![put(1, 2), put_ttl(2, 2, 1000)], vec![vec![upw(1, 3), put(3, 2)], vec![adv(3000), Op::Tick]]);
        p.world.dash_single_shard = true; // a and b share a shard of the weight table
        v.push(p);
    }
    // the smallest sketch the builder accepts, a full cache: every queued put has to go through admission and is still answered
    {
        let mut p = mk("burst: put c;put d;delete a;put e /queue1/counters=1/full cache", 1, vec![put(1, 2), put(2, 2)], vec![vec![put(3, 2), put(4, 2), del(1), put(5, 2)]]);
        p.setup = Setup { weight: 4, queue: 1, counters: 1, ..Setup::default() };
        v.push(p);
    }
    // a second life that starts with another put variant than the first
    v.push(mk("burst: put a;delete a;put_ttl a;delete a /queue1", 1, vec![], vec![vec![put(1, 2), del(1), put_ttl(1, 3, 5000), del(1)]]));
    v.push(mk("burst: put_ttl a;delete a;put a;delete a;put_ttl a /queue2", 2, vec![], vec![vec![put_ttl(1, 2, 5000), del(1), put(1, 3), del(1), put_ttl(1, 4, 5000)]]));
    v.push(mk("bursts: put a;await || put b;poll_once;await /queue1", 1, vec![], vec![vec![put(1, 2), Op::Await { call: 0 }], vec![put(2, 2), Op::PollOnce { call: 0 }, Op::Await { call: 0 }]]));
    v
}

pub fn def(ctx: &Ctx) -> PropertyDef {
    let quick = ctx.quick();
    let workers = ctx.workers;
    let scenarios: Vec<Scenario> = for_tier(programs(), quick)
        .into_iter()
        .map(|p| {
            let n = p.threads.len();
            {
                let nthreads = p.threads.len();
                let o = if p.name.contains("sweeping") || p.name.contains("full cache") { oracle_with(false) } else { oracle() };
                program_scenario(p, o, move |c| crate::harness::ilv::tier_cfg(c, nthreads))
            }
        })
        .collect();
    let mut assumptions = COMMON_ASSUMPTIONS.to_vec();
    assumptions.push("no memory pressure in these programs (W = 100), so the sequential reference is a plain map; queue sizes 1 and 2");
    PropertyDef {
        id: "C11",
        technique: "stateless preemption-bounded model checking of the real code: bursts of unawaited writes against the command worker; every-scheduling-point monitor for acknowledgement order, event-log oracle for exactly-once/in-order dequeueing, final state compared with the sequential application in dequeue order",
        rule: "ilv: every schedule of each burst program up to the bound; distinct_nontrivial = distinct overlapping call/return histories",
        assumptions,
        scenarios,
    }
}
