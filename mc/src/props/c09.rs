//! C09 - expired values are never served (and live ones are never hidden by expiry).
//!
//! seq: breadth-first search over histories of TTL puts, TTL upserts (add / change / remove), deletes,
//! clock steps (including a huge jump), sweeps and "read through every variant"; the expected read is
//! derived from the *specification-level* ghost (latest accepted value and deadline per key).
use super::common::*;
use super::{Ctx, PropertyDef, Scenario, COMMON_ASSUMPTIONS};
use crate::harness::kit::*;
use crate::harness::seq::*;
use std::sync::Arc;

pub fn read_oracle(pressure: bool) -> SeqOracle {
    Arc::new(move |run: &SeqRun, out: &mut Vec<Finding>| {
        let i = run.last();
        let c = &run.calls[i];
        if !matches!(c.op, Op::ReadAll { .. }) {
            return;
        }
        let ghost = ghost_after(run, i, pressure);
        let now = c.now_ms_inv;
        let results = read_all_results(c);
        for (variant, k, got) in &results {
            match expected_read(&ghost, *k, now) {
                Some(Some(v)) => {
                    if *got != Some(v) {
                        if got.is_none() && pressure {
                            continue; // a cache under memory pressure may have evicted it
                        }
                        let d = ghost.get(k).and_then(|e| e.deadline);
                        let (clause, sig) = if got.is_none() {
                            if d.is_some() { ("hidden-before-deadline", "ttl:hidden-before-deadline") } else { ("no-ttl-key-lost", "ttl:no-ttl-key-unreadable") }
                        } else {
                            ("wrong-value", "read:wrong-value")
                        };
                        out.push(Finding::new(clause, sig, format!("{:?}({}) returned {:?} at t={} but the latest accepted write (step {}) put value {} with deadline {:?}", variant, k, got, now - T0_MS, ghost[k].by, v, d.map(|d| d - T0_MS))));
                    }
                }
                Some(None) => {
                    if let Some(v) = got {
                        let (clause, sig) = match ghost.get(k) {
                            Some(_) => ("served-after-deadline", "ttl:served-after-deadline"),
                            None => ("served-absent-key", "read:served-absent-key"),
                        };
                        out.push(Finding::new(clause, sig, format!("{:?}({}) returned {} at t={} although the key's deadline {:?} has passed / the key is gone", variant, k, v, now - T0_MS, ghost.get(k).and_then(|e| e.deadline).map(|d| d - T0_MS))));
                    }
                }
                None => {}
            }
        }
        // all variants agree
        let keys: Vec<K> = results.iter().map(|r| r.1).collect();
        for k in keys {
            let per: Vec<&(ReadVariant, K, Option<V>)> = results.iter().filter(|r| r.1 == k).collect();
            if per.iter().any(|r| r.2 != per[0].2) {
                out.push(Finding::new("read-variants-disagree", "read:variants-disagree", format!("read variants disagree on key {} in one quiescent state: {:?}", k, per.iter().map(|r| (r.0, r.2)).collect::<Vec<_>>())));
                break;
            }
        }
    })
}

fn spec(ctx: &Ctx, shards: usize, with_ticks: bool) -> SeqSpec {
    let quick = ctx.quick();
    let mut alphabet: Vec<Op> = Vec::new();
    let keys: Vec<K> = vec![1, 2];
    let ttls: Vec<u64> = vec![1000, 1500, 3000, 1_000_000_000];
    for &k in &keys {
        alphabet.push(Op::Put { k, w: Some(30), ttl_ms: None });
        for &t in &ttls {
            if k == 2 && (t == 1500 || t == 1_000_000_000) {
                continue;
            }
            alphabet.push(Op::Put { k, w: Some(30), ttl_ms: Some(t) });
        }
    }
    alphabet.push(Op::Put { k: 1, w: None, ttl_ms: Some(1000) });
    for &k in &keys {
        alphabet.push(Op::Upsert { k, value: true, w: None, ttl_ms: None, remove_ttl: false });
        alphabet.push(Op::Upsert { k, value: false, w: None, ttl_ms: Some(1500), remove_ttl: false });
        if k == 1 {
            alphabet.push(Op::Upsert { k, value: true, w: None, ttl_ms: Some(3000), remove_ttl: false });
            // moves the expiry to another shard for 2 and for 4 shards (old 1 s -> new 4 s)
            alphabet.push(Op::Upsert { k, value: false, w: None, ttl_ms: Some(4000), remove_ttl: false });
            alphabet.push(Op::Upsert { k, value: true, w: None, ttl_ms: None, remove_ttl: true });
        }
        alphabet.push(Op::Upsert { k, value: false, w: None, ttl_ms: None, remove_ttl: true });
        alphabet.push(Op::Delete { k });
    }
    for ms in [500u64, 1000, 2000, 3000, 10_000_000_000] {
        alphabet.push(Op::Advance { ms });
    }
    if with_ticks {
        alphabet.push(Op::TickWait);
    }
    alphabet.push(Op::ReadAll { keys: keys.clone() });
    SeqSpec {
        name: format!("seq/ttl-reads/shards{}{}", shards, if with_ticks { "" } else { "/sweeper-never-runs" }),
        setup: Setup { weight: 10_000, shards, buffer: 64, weight_fn: WeightFn::Const { c: 30, ttl_extra: 24 }, ..Setup::default() },
        world: Default::default(),
        prefix: vec![],
        alphabet,
        depth: if quick { 5 } else { 6 },
        // an upsert without a value needs an existing entry (documented precondition PutOrUpdateValueMissing)
        allow: Some(Arc::new(|_h, present, a| match a {
            Op::Upsert { k, value: false, .. } => present.contains(k),
            _ => true,
        })),
        oracle: read_oracle(false),
        keys,
        canon_sketch: false,
        ghost_key: Some(ghost_key(false)),
        max_states: if quick { 60_000 } else { 2_000_000 },
        time_cap_s: if quick { 25.0 } else { 900.0 },
    }
}

/// TTL changes chained on one key: the history starts after a first change of the deadline (shortened, moved to
/// another expiry shard, kept in the same shard), so that a *second* change, the clock positions of the old
/// deadlines and the sweeps of their shards all fit inside the depth bound.
fn chained_spec(ctx: &Ctx, shards: usize, which: usize) -> SeqSpec {
    let quick = ctx.quick();
    let ups = |value: bool, ttl: Option<u64>, rm: bool| Op::Upsert { k: 1, value, w: None, ttl_ms: ttl, remove_ttl: rm };
    let (label, prefix): (&str, Vec<Op>) = match which {
        0 => ("shortened", vec![Op::Put { k: 1, w: Some(30), ttl_ms: Some(3000) }, ups(false, Some(1500), false)]),
        1 => ("moved-to-another-shard", vec![Op::Put { k: 1, w: Some(30), ttl_ms: Some(1000) }, ups(false, Some(4000), false)]),
        2 => ("extended-within-its-shard", vec![Op::Put { k: 1, w: Some(30), ttl_ms: Some(1000) }, ups(false, Some(1500), false)]),
        _ => ("ttl-added-later", vec![Op::Put { k: 1, w: Some(30), ttl_ms: None }, ups(false, Some(1500), false)]),
    };
    let alphabet = vec![
        ups(false, None, true),
        ups(true, Some(4000), false),
        ups(false, Some(2500), false),
        ups(false, Some(500), false),
        // a time-to-live of zero: the deadline is "now"
        ups(false, Some(0), false),
        Op::Advance { ms: 1000 },
        Op::Advance { ms: 2000 },
        Op::Advance { ms: 3000 },
        Op::TickWait,
        Op::ReadAll { keys: vec![1] },
    ];
    SeqSpec {
        name: format!("seq/ttl-reads/chained-ttl-changes/{}/shards{}", label, shards),
        setup: Setup { weight: 10_000, shards, buffer: 64, weight_fn: WeightFn::Const { c: 30, ttl_extra: 24 }, ..Setup::default() },
        world: Default::default(),
        prefix,
        alphabet,
        depth: if quick { 7 } else { 9 },
        allow: Some(Arc::new(|_h, present, a| match a {
            Op::Upsert { k, value: false, .. } => present.contains(k),
            _ => true,
        })),
        oracle: read_oracle(false),
        keys: vec![1],
        canon_sketch: false,
        ghost_key: Some(ghost_key(false)),
        max_states: if quick { 60_000 } else { 2_000_000 },
        time_cap_s: if quick { 10.0 } else { 600.0 },
    }
}

pub fn def(ctx: &Ctx) -> PropertyDef {
    let mut scenarios: Vec<Scenario> = Vec::new();
    for (shards, ticks) in [(2usize, true), (4, true), (2, false)] {
        if ctx.quick() && shards == 4 {
            continue;
        }
        let name = spec(ctx, shards, ticks).name;
        scenarios.push(seq_scenario(move |c| spec(c, shards, ticks), &name));
    }
    for shards in [2usize, 4] {
        for which in 0..4usize {
            let name = chained_spec(ctx, shards, which).name;
            scenarios.push(seq_scenario(move |c| chained_spec(c, shards, which), &name));
        }
    }
    // the sweeper at work while the deadline is moved / read: the C03 history oracle on key 1 (latest acknowledged
    // value and deadline) decides "hidden before its expiry"
    {
        use crate::harness::ilv::Program;
        let ups = |value: bool, w: Option<i64>, ttl: Option<u64>, rm: bool| Op::Upsert { k: 1, value, w, ttl_ms: ttl, remove_ttl: rm };
        let mk = |name: &str, init: Vec<Op>, threads: Vec<Vec<Op>>| {
            let mut p = Program::new(name);
            p.setup = Setup { weight: 1000, ..Setup::default() };
            p.init = init;
            p.threads = threads;
            p.post = vec![get(1)];
            p
        };
        let programs = vec![
            mk("ilv: k:upsert(ttl+50s);await;get || {clock+7s;tick}", vec![put_ttl(1, 30, 5000)], vec![vec![ups(true, Some(30), Some(50_000), false), Op::Await { call: 0 }, get(1)], vec![adv(7000), Op::Tick]]),
            mk("ilv: k:upsert(remove-ttl);get || {clock+7s;tick} (k not yet expired at the tick's shard)", vec![put_ttl(1, 30, 9000)], vec![vec![ups(true, Some(30), None, true), get(1)], vec![adv(7000), Op::Tick]]),
            // two puts of the same absent key in one burst: whichever is accepted decides whether the key has a deadline at all
            mk("ilv: put_ttl(k,1s);put(k) unawaited;await;clock+3s;tick;get", vec![], vec![vec![put_ttl(1, 30, 1000), Op::Put { k: 1, w: Some(30), ttl_ms: None }, Op::AwaitAll, adv(3000), Op::Tick, get(1)]]),
            mk("ilv: put(k);put_ttl(k,1s) unawaited;await;clock+3s;tick;get", vec![], vec![vec![Op::Put { k: 1, w: Some(30), ttl_ms: None }, put_ttl(1, 30, 1000), Op::AwaitAll, adv(3000), Op::Tick, get(1)]]),
            mk("ilv: k:get;get || {clock+3s;tick} sweeping b (k has a later deadline in the same shard)", vec![put_ttl(1, 30, 9000), put_ttl(2, 30, 1000)], vec![vec![get(1), get(1)], vec![adv(3000), Op::Tick]]),
        ];
        for p in programs {
            let nthreads = p.threads.len();
            scenarios.push(crate::harness::ilv::program_scenario(p, crate::props::c03::ilv_oracle(), move |c| crate::harness::ilv::tier_cfg(c, nthreads)));
        }
        // the deadline in force is the one of the last accepted TTL request, also when the worker or another client
        // touches the same entry meanwhile (judged by C08's rule for TTL requests)
        let programs = vec![
            mk("ilv: put_ttl(1h) unawaited;upsert(v,ttl 10s)", vec![], vec![vec![Op::Put { k: 1, w: Some(30), ttl_ms: Some(3_600_000) }, ups(true, Some(30), Some(10_000), false)]]),
            mk("ilv: upsert(ttl 500ms) || upsert(v)", vec![put_ttl(1, 30, 5000)], vec![vec![ups(false, None, Some(500), false)], vec![ups(true, None, None, false)]]),
            mk("ilv: upsert(remove ttl) || upsert(v);upsert(v)", vec![put_ttl(1, 30, 5000)], vec![vec![ups(false, Some(30), None, true)], vec![ups(true, None, None, false), ups(true, None, None, false)]]),
        ];
        for p in programs {
            let nthreads = p.threads.len();
            scenarios.push(crate::harness::ilv::program_scenario(p, crate::props::c08::ilv_oracle(), move |c| crate::harness::ilv::tier_cfg(c, nthreads)));
        }
    }
    let mut assumptions = COMMON_ASSUMPTIONS.to_vec();
    assumptions.push("monotone harness clock; the instant now == expiry is left unspecified; no memory pressure (W = 10000)");
    PropertyDef {
        id: "C09",
        technique: "explicit-state model checking of the real code: breadth-first search over operation sequences with canonical-state deduplication; every transition re-executed on a fresh cache (default schedule, quiescence after every step); plus stateless preemption-bounded model checking of TTL changes and reads racing the sweeper",
        rule: "seq: all histories over the alphabet up to the depth, deduplicated by canonical state (store entries with ids ranked, charged weights, expiry index, clock); distinct_nontrivial = canonical states first reached at depth >= 2",
        assumptions,
        scenarios,
    }
}
