//! C08 - put_or_update changes exactly what was requested, or acts as put.
//!
//! seq: the 11 request shapes the builder accepts x key states {absent, live, live with TTL, expired but
//!      unswept} x one preceding operation; for readable keys the oracle compares the entry before and
//!      after; for absent keys the request must behave like the corresponding put (checked against the
//!      specification of put *and* differentially against a twin cache that receives the put variant).
//! ilv: effects visible at return (worker frozen), the soft-deleted state, accepted upserts not lost.
use super::common::*;
use super::{Ctx, PropertyDef, Scenario, COMMON_ASSUMPTIONS};
use crate::cache::command::CommandStatus;
use crate::harness::ilv::{program_scenario, IlvCfg, Oracle, Program, Role, Run};
use crate::harness::kit::*;
use crate::harness::seq::*;
use std::sync::Arc;

const W_REQ: i64 = 40;
const TTL_REQ: u64 = 5000;

fn shapes(k: K) -> Vec<Op> {
    let mut v = Vec::new();
    for (value, w, t, r) in [
        (true, false, false, false),
        (false, true, false, false),
        (false, false, true, false),
        (false, false, false, true),
        (true, true, false, false),
        (true, false, true, false),
        (true, false, false, true),
        (false, true, true, false),
        (false, true, false, true),
        (true, true, true, false),
        (true, true, false, true),
    ] {
        v.push(Op::Upsert { k, value, w: if w { Some(W_REQ) } else { None }, ttl_ms: if t { Some(TTL_REQ) } else { None }, remove_ttl: r });
    }
    v
}

fn weight_fn_of(setup: &Setup, k: K, ttl: bool) -> i64 {
    match setup.weight_fn {
        WeightFn::Const { c, ttl_extra } => c + if ttl { ttl_extra } else { 0 },
        WeightFn::ByKey { offset } => k as i64 + offset,
    }
}

fn seq_oracle() -> SeqOracle {
    Arc::new(|run: &SeqRun, out: &mut Vec<Finding>| {
        let i = run.last();
        let c = &run.calls[i];
        let (k, has_value, w, ttl, rm) = match &c.op {
            Op::Upsert { k, value, w, ttl_ms, remove_ttl } => (*k, *value, *w, *ttl_ms, *remove_ttl),
            _ => return,
        };
        if matches!(c.res, Res::Panicked(_)) {
            return; // reported by the engine
        }
        let (b, a) = (run.before(), run.after());
        // exactly what was requested, nothing else: every other key keeps its entry, its charge and its place in the expiry
        // index (these caches are far larger than what is put into them, so nothing is evicted)
        for e in b.store.iter().filter(|e| e.0 != k) {
            let idx = |o: &Obs| { let mut v: Vec<(usize, u64)> = o.ttl.iter().filter(|t| t.1 == e.2).map(|t| (t.0, t.2)).collect(); v.sort(); v };
            if a.entry(e.0) != Some(e) || a.weight_of_id(e.2) != b.weight_of_id(e.2) || idx(a) != idx(b) {
                out.push(Finding::new("bystander-changed", "upsert:another-key-changed", format!("{} changed key {}: entry {:?} -> {:?}, weight {:?} -> {:?}, expiry index {:?} -> {:?}", c.op.short(), e.0, e, a.entry(e.0), b.weight_of_id(e.2), a.weight_of_id(e.2), idx(b), idx(a))));
            }
        }
        let st = run.statuses[i];
        let now = c.now_ms_inv;
        let (readable, specified) = model_read(b, k);
        if !specified {
            return;
        }
        let want_expiry_of = |old: Option<u64>| -> Option<u64> {
            if rm {
                None
            } else if let Some(t) = ttl {
                Some(now + t)
            } else {
                old
            }
        };
        let shape = format!("{}{}{}{}", if has_value { "v" } else { "" }, if w.is_some() { "w" } else { "" }, if ttl.is_some() { "t" } else { "" }, if rm { "r" } else { "" });
        if readable.is_some() {
            let e = b.entry(k).unwrap();
            if st != Some(CommandStatus::Accepted) {
                out.push(Finding::new("update-status", "upsert:update-of-readable-key-not-accepted", format!("{} on a readable key ended with {:?}", c.op.short(), st.map(|s| status_short(&s)))));
            }
            match a.entry(k) {
                None => out.push(Finding::new("update-lost-key", "upsert:update-removed-key", format!("{} removed the key", c.op.short()))),
                Some(n) => {
                    let want_value = if has_value { c.value.unwrap() } else { e.1 };
                    if n.1 != want_value {
                        out.push(Finding::new("update-value", if has_value { "upsert:value-not-replaced" } else { "upsert:value-changed-unrequested" }, format!("{} (shape {}): value {} -> {} (expected {})", c.op.short(), shape, e.1, n.1, want_value)));
                    }
                    let want_expiry = want_expiry_of(e.3);
                    if n.3 != want_expiry {
                        out.push(Finding::new(
                            "update-expiry",
                            if ttl.is_some() || rm { "upsert:ttl-not-applied" } else { "upsert:ttl-changed-unrequested" },
                            format!("{} (shape {}): expiry {:?} -> {:?} (expected {:?})", c.op.short(), shape, e.3.map(|x| x - T0_MS), n.3.map(|x| x - T0_MS), want_expiry.map(|x| x - T0_MS)),
                        ));
                    }
                    if n.2 != e.2 {
                        out.push(Finding::new("update-id", "upsert:update-changed-key-id", format!("{} changed the key id #{} -> #{}", c.op.short(), e.2, n.2)));
                    }
                    if let Some(w) = w {
                        if a.weight_of_id(n.2) != Some(w) {
                            out.push(Finding::new("update-weight", "upsert:explicit-weight-not-charged", format!("{} requested weight {} but {:?} is charged", c.op.short(), w, a.weight_of_id(n.2))));
                        }
                    }
                    // no weight requested, no value: a key whose charged weight is what the configured weight function
                    // gives for its TTL state keeps that relation when the request adds or removes the TTL (the weight
                    // function charges `ttl_extra` for the expiry-index entry of a key with a TTL)
                    // (only for weight functions that charge the library's own 24 for a TTL, like the default one: the
                    // adjustment the library applies is that constant, whatever the configured function says - the
                    // design question recorded with D8)
                    let default_like = matches!(run.setup.weight_fn, WeightFn::Const { ttl_extra: 24, .. });
                    if w.is_none() && !has_value && default_like {
                        let (had, has) = (e.3.is_some(), n.3.is_some());
                        if had != has && b.weight_of_id(e.2) == Some(weight_fn_of(&run.setup, k, had)) {
                            let want = weight_fn_of(&run.setup, k, has);
                            if a.weight_of_id(n.2) != Some(want) {
                                out.push(Finding::new("derived-weight-follows-ttl", "upsert:derived-weight-does-not-follow-ttl", format!("{}: the key was charged {:?} ({} TTL); {} the TTL must leave it charged {} but {:?} is charged", c.op.short(), b.weight_of_id(e.2), if had { "with" } else { "without" }, if has { "adding" } else { "removing" }, want, a.weight_of_id(n.2))));
                            }
                        }
                    }
                    // the expiry index follows
                    if let Some(x) = n.3 {
                        if !a.ttl.iter().any(|t| t.1 == n.2 && t.2 == x) {
                            out.push(Finding::new("update-index", "upsert:expiry-index-not-updated", format!("{}: the expiry index has no entry (#{}, {})", c.op.short(), n.2, x - T0_MS)));
                        }
                    } else if a.ttl.iter().any(|t| t.1 == n.2) && e.3.is_some() {
                        out.push(Finding::new("update-index", "upsert:expiry-index-not-cleared", format!("{}: the TTL was removed but the expiry index still lists #{}", c.op.short(), n.2)));
                    }
                }
            }
        } else if has_value {
            // reads as absent: behaves like the corresponding put (put specification: accepted when it fits, readable afterwards)
            let state = match b.entry(k) {
                None => "absent",
                Some(e) if e.4 => "soft-deleted",
                Some(_) if passed_over_by_its_sweep(run, i, k) => "expired-and-passed-over-by-its-sweep",
                Some(_) => "expired-unswept",
            };
            let weight = w.unwrap_or_else(|| weight_fn_of(&run.setup, k, ttl.is_some()));
            let fits = weight <= b.max_weight - b.weight_used + b.entry(k).and_then(|e| b.weight_of_id(e.2)).unwrap_or(0);
            if fits {
                if st != Some(CommandStatus::Accepted) {
                    out.push(Finding::new("as-put-status", format!("upsert:as-put-not-accepted:{}-key", state), format!("{} on a key that reads as absent ({}) ended with {:?}", c.op.short(), state, st.map(|s| status_short(&s)))));
                } else {
                    let (got, spec) = model_read(a, k);
                    let want_expiry = if rm { None } else { ttl.map(|t| now + t) };
                    if spec && got != c.value {
                        // the recorded defect leaves the key unreadable; serving some other value is a different bug
                        let what = if got.is_none() { "unreadable" } else { "other-value-served" };
                        out.push(Finding::new("accepted-upsert-lost", format!("upsert:accepted-but-{}:{}-key", what, state), format!("{} (shape {}) was acknowledged Accepted on a key that read as absent ({}), but the key still reads {:?} (entry {:?})", c.op.short(), shape, state, got, a.entry(k))));
                    } else if let Some(n) = a.entry(k) {
                        if n.3 != want_expiry {
                            out.push(Finding::new("as-put-expiry", format!("upsert:as-put-expiry-differs:{}-key", state), format!("{} on an absent-reading key: expiry {:?}, the corresponding put gives {:?}", c.op.short(), n.3.map(|x| x - T0_MS), want_expiry.map(|x| x - T0_MS))));
                        }
                        if a.weight_of_id(n.2) != Some(weight) {
                            out.push(Finding::new("as-put-weight", format!("upsert:as-put-weight-differs:{}-key", state), format!("{} on an absent-reading key: charged {:?}, the corresponding put charges {}", c.op.short(), a.weight_of_id(n.2), weight)));
                        }
                    }
                }
            }
            // differential: a twin cache receives the corresponding put variant after the same history
            if state == "absent" {
                let mut twin_ops = run.ops[..i].to_vec();
                twin_ops.push(Op::Put { k, w, ttl_ms: if rm { None } else { ttl } });
                let twin = execute(run.setup, Default::default(), &twin_ops);
                let (ta, tst) = (twin.after(), twin.statuses[i]);
                if tst != st {
                    out.push(Finding::new("differs-from-put", "upsert:differs-from-put:status", format!("{} ended with {:?} but the corresponding put ends with {:?}", c.op.short(), st.map(|s| status_short(&s)), tst.map(|s| status_short(&s)))));
                }
                let proj = |o: &Obs| o.entry(k).map(|e| (e.3, e.4, o.weight_of_id(e.2)));
                if proj(a) != proj(ta) || a.weight_used != ta.weight_used || a.ttl.len() != ta.ttl.len() {
                    out.push(Finding::new("differs-from-put", "upsert:differs-from-put:state", format!("{} leaves {} but the corresponding put leaves {}", c.op.short(), a.brief(), ta.brief())));
                }
            }
        }
    })
}

fn seq_spec(ctx: &Ctx, shards: usize, ttl_extra: i64, bystander: bool) -> SeqSpec {
    let mut alphabet = vec![Op::Put { k: 1, w: Some(30), ttl_ms: None }, Op::Put { k: 1, w: Some(30), ttl_ms: Some(2000) }, Op::Put { k: 1, w: None, ttl_ms: Some(2000) }, Op::Delete { k: 1 }, Op::Advance { ms: 3000 }, Op::Advance { ms: 1000 }, Op::TickWait];
    alphabet.extend(shapes(1));
    // a TTL that is *shorter* than the one the key has (the other shapes extend it), with and without a value
    alphabet.push(Op::Upsert { k: 1, value: false, w: None, ttl_ms: Some(500), remove_ttl: false });
    alphabet.push(Op::Upsert { k: 1, value: true, w: None, ttl_ms: Some(700), remove_ttl: false });
    // a time-to-live of zero, on absent keys (acts as put_with_ttl(.., 0): differential against the twin) and on held ones
    alphabet.push(Op::Upsert { k: 1, value: true, w: None, ttl_ms: Some(0), remove_ttl: false });
    SeqSpec {
        // ttl_extra 24 mirrors the default weight calculation (a key with a TTL is charged for its expiry-index entry);
        // ttl_extra 0 is a custom weight function for which a TTL makes no difference
        // bystander: another key was put with the same TTL at the same clock reading as key 1 may be (same expiry instant)
        name: format!("seq/upsert-shapes-x-key-states/shards{}{}{}", shards, if ttl_extra == 24 { String::new() } else { format!("/weight-fn-ignores-ttl") }, if bystander { "/bystander-with-the-same-expiry" } else { "" }),
        setup: Setup { weight: 10_000, shards, buffer: 64, weight_fn: WeightFn::Const { c: 30, ttl_extra }, ..Setup::default() },
        world: Default::default(),
        prefix: if bystander { vec![Op::Put { k: 2, w: Some(30), ttl_ms: Some(2000) }] } else { vec![] },
        alphabet,
        depth: if ctx.quick() { if bystander { 5 } else { 7 } } else { if bystander { 7 } else { 9 } },
        allow: Some(Arc::new(|_h, present, a| match a {
            Op::Upsert { k, value: false, .. } => present.contains(k),
            _ => true,
        })),
        oracle: seq_oracle(),
        keys: if bystander { vec![1, 2] } else { vec![1] },
        canon_sketch: false,
        ghost_key: Some(passed_over_key(if bystander { vec![1, 2] } else { vec![1] })),
        max_states: 2_000_000,
        time_cap_s: if ctx.quick() { 25.0 } else { 600.0 },
    }
}

// ---------------------------------------------------------------------------------------------- ilv
pub fn ilv_oracle() -> Oracle {
    Arc::new(|run: &Run, out: &mut Vec<crate::harness::ilv::Finding>| {
        use crate::harness::ilv::Finding;
        // thread 0 is sequential: [.., upsert(k, value..), read(k)] -> the read must already see the value
        let mut t0: Vec<&Call> = run.calls.iter().filter(|c| c.thread == 0).collect();
        t0.sort_by_key(|c| c.idx);
        let mut deleted_before = false;
        for w in t0.windows(2) {
            if matches!(w[0].op, Op::Delete { .. }) {
                deleted_before = true;
            }
            if let (Op::Upsert { k, value: true, .. }, Op::Read { k: rk, .. }) = (&w[0].op, &w[1].op) {
                if k == rk && matches!(w[0].res, Res::Write { err: false, .. }) {
                    if let Res::Read(got) = &w[1].res {
                        // after an unacknowledged delete the key reads as absent and the upsert acts as a put,
                        // whose effect need not be visible at return: only readable keys are checked here
                        if *got != w[0].value && !deleted_before {
                            out.push(Finding::new("upsert-invisible-at-return", "upsert:invisible-at-return", format!("{} returned, but the very next {} returned {:?}", w[0].short(), w[1].short(), got)));
                        }
                    }
                }
            }
        }
        // an explicitly requested weight becomes the charged weight once acknowledged: when one thread is the
        // only writer of key 1 and all its calls are acknowledged, the last explicitly requested weight is charged
        for k in [1 as K, 2] {
            let writers: Vec<usize> = {
                let mut w: Vec<usize> = run.calls.iter().filter(|c| c.thread < PHASE_INIT && c.op.key() == Some(k) && c.op.is_write()).map(|c| c.thread).collect();
                w.sort();
                w.dedup();
                w
            };
            if writers.len() == 1 && !run.calls.iter().any(|c| c.thread < PHASE_INIT && c.op.key() == Some(k) && matches!(c.op, Op::Delete { .. })) {
                let mut ws: Vec<&Call> = run.calls.iter().filter(|c| c.thread == writers[0] && c.op.key() == Some(k)).collect();
                ws.sort_by_key(|c| c.idx);
                let last_w = ws.iter().rev().find_map(|c| match &c.op {
                    Op::Upsert { w: Some(w), .. } if run.status_of(c.thread, c.idx) == Some(CommandStatus::Accepted) => Some((*w, c.short())),
                    _ => None,
                });
                let later_implicit = ws.iter().rev().take_while(|c| !matches!(&c.op, Op::Upsert { w: Some(_), .. })).any(|c| matches!(&c.op, Op::Upsert { .. }));
                if let (Some((w, desc)), false, Some(e)) = (last_w, later_implicit, run.obs_end.entry(k)) {
                    if run.obs_end.weight_of_id(e.2) != Some(w) {
                        out.push(Finding::new("explicit-weight-not-charged", "upsert:explicit-weight-not-charged", format!("{} was acknowledged Accepted and is the last weight request for key {}, but {:?} is charged", desc, k, run.obs_end.weight_of_id(e.2))));
                    }
                }
            }
        }
        // value and explicit weight of one request travel together: if the key ends with the value written by a call
        // that also requested a weight, that weight is charged - unless a weight request that began after that call
        // returned exists (every sequential order of the calls gives the pair; a torn pair means the request was
        // applied to two different incarnations of the key)
        if let Some(e) = run.obs_end.entry(1) {
            if let Some(u) = run.calls.iter().find(|c| c.thread < PHASE_INIT && c.value == Some(e.1)) {
                let req_w = match &u.op {
                    Op::Upsert { w: Some(w), value: true, .. } => Some(*w),
                    Op::Put { w: Some(w), ttl_ms: None, .. } => Some(*w),
                    _ => None,
                };
                let later_weight_request = run.calls.iter().any(|c| c.thread < PHASE_INIT && c.op.key() == Some(1) && c.inv > u.ret && matches!(&c.op, Op::Upsert { w: Some(_), .. } | Op::Upsert { ttl_ms: Some(_), .. } | Op::Upsert { remove_ttl: true, .. }));
                if let (Some(w), false, Some(CommandStatus::Accepted)) = (req_w, later_weight_request, run.status_of(u.thread, u.idx)) {
                    if run.obs_end.weight_of_id(e.2) != Some(w) {
                        out.push(Finding::new("value-and-weight-torn", "upsert:value-of-one-request-weight-of-another", format!("key 1 ends with the value written by {} (Accepted, weight {} requested) but is charged {:?}", u.short(), w, run.obs_end.weight_of_id(e.2))));
                    }
                }
            }
        }
        // the time-to-live: when exactly one client thread issues TTL-carrying requests for key 1 (puts with a TTL, upserts
        // with a TTL or removing it) and nobody deletes the key, the last of them that was accepted fixes the deadline
        // (the harness clock does not move inside these windows)
        if !run.program.moves_clock_in_window() && !run.calls.iter().any(|c| c.thread < PHASE_INIT && matches!(c.op, Op::Delete { k: 1 })) {
            let ttl_calls: Vec<&Call> = {
                let mut v: Vec<&Call> = run.calls.iter().filter(|c| c.thread < PHASE_INIT && c.op.key() == Some(1) && matches!(&c.op, Op::Put { ttl_ms: Some(_), .. } | Op::Upsert { ttl_ms: Some(_), .. } | Op::Upsert { remove_ttl: true, .. })).collect();
                v.sort_by_key(|c| c.inv);
                v
            };
            let one_thread = ttl_calls.iter().all(|c| c.thread == ttl_calls[0].thread);
            let plain_puts = run.calls.iter().any(|c| c.thread < PHASE_INIT && matches!(&c.op, Op::Put { k: 1, ttl_ms: None, .. }));
            if !ttl_calls.is_empty() && one_thread && !plain_puts {
                if let Some(last) = ttl_calls.iter().rev().find(|c| run.status_of(c.thread, c.idx) == Some(CommandStatus::Accepted)) {
                    let want = match &last.op {
                        Op::Put { ttl_ms: Some(t), .. } | Op::Upsert { ttl_ms: Some(t), .. } => Some(last.now_ms_inv + t),
                        _ => None,
                    };
                    if let Some(e) = run.obs_end.entry(1) {
                        if e.3 != want {
                            out.push(Finding::new("ttl-request-lost", "upsert:last-accepted-ttl-request-not-in-force", format!("{} is the last accepted time-to-live request for key 1 (deadline {:?}) but the key ends with expiry {:?}", last.short(), want.map(|x| x - T0_MS), e.3.map(|x| x - T0_MS))));
                        }
                    }
                }
            }
        }
        for f in accounting_violations(&run.obs_end) {
            out.push(Finding::new("accounting", "upsert:accounting-broken", f));
        }
        // an upsert acknowledged as accepted is not silently lost: with no later delete of the key by anybody,
        // the probe read after quiescence returns the latest accepted value
        for k in [1u64] {
            let writes: Vec<&Call> = run.calls.iter().filter(|c| c.thread < PHASE_INIT && c.op.key() == Some(k) && c.op.is_write()).collect();
            let last = writes.iter().max_by_key(|c| c.inv);
            if let Some(l) = last {
                if let Op::Upsert { value: true, .. } = &l.op {
                    if run.status_of(l.thread, l.idx) == Some(CommandStatus::Accepted) && writes.iter().all(|c| c.thread == l.thread) {
                        let probe = run.calls.iter().find(|c| c.thread == PHASE_POST && matches!(&c.op, Op::Read { k: rk, .. } if *rk == k));
                        if let Some(p) = probe {
                            if p.res != Res::Read(l.value) {
                                let pending_delete = writes.iter().any(|c| matches!(c.op, Op::Delete { .. }) && c.inv < l.inv);
                                out.push(Finding::new(
                                    "accepted-upsert-lost",
                                    if pending_delete { "upsert:accepted-then-removed-by-pending-delete" } else { "upsert:accepted-but-lost" },
                                    format!("{} was the last write to key {} and was acknowledged Accepted, but after quiescence {} returned {:?}", l.short(), k, p.short(), p.res),
                                ));
                            }
                        }
                    }
                }
            }
        }
    })
}

fn ilv_programs() -> Vec<Program> {
    let mut v = Vec::new();
    let mk = |name: &str, init: Vec<Op>, threads: Vec<Vec<Op>>, frozen: bool| {
        let mut p = Program::new(name);
        p.setup = Setup { weight: 1000, ..Setup::default() };
        p.init = init;
        p.threads = threads;
        if frozen {
            p.frozen = vec![Role::Worker];
        }
        p.post = vec![get(1)];
        p
    };
    let ups = |value: bool, w: Option<i64>, ttl: Option<u64>, rm: bool| Op::Upsert { k: 1, value, w, ttl_ms: ttl, remove_ttl: rm };
    v.push(mk("upsert(v,w);get  [worker stopped]", vec![put(1, 30)], vec![vec![ups(true, Some(40), None, false), get(1)]], true));
    v.push(mk("upsert(v,ttl);get_ref  [worker stopped]", vec![put(1, 30)], vec![vec![ups(true, None, Some(5000), false), Op::Read { k: 1, variant: ReadVariant::GetRef }]], true));
    v.push(mk("delete;upsert(v);get  [worker stopped: soft-deleted state]", vec![put(1, 30)], vec![vec![del(1), ups(true, None, None, false), get(1)]], true));
    v.push(mk("delete;upsert(v,w,ttl)  [worker running]", vec![put(1, 30)], vec![vec![del(1), ups(true, Some(40), Some(5000), false)]], false));
    v.push(mk("upsert(w=40);upsert(w=30 = the initial weight) unawaited", vec![put(1, 30)], vec![vec![ups(true, Some(40), None, false), ups(true, Some(30), None, false)]], false));
    v.push(mk("upsert(w=40);upsert(w=40);upsert(w=35) unawaited || get", vec![put(1, 30)], vec![vec![ups(false, Some(40), None, false), ups(false, Some(40), None, false), ups(false, Some(35), None, false)], vec![get(1)]], false));
    // a value+weight upsert overlapping a delete and re-put of the key by another client
    v.push(mk("upsert(v,w=50) || delete;await;put(w=10);await", vec![put(1, 30)], vec![vec![ups(true, Some(50), None, false)], vec![del(1), Op::Await { call: 0 }, put(1, 10), Op::Await { call: 2 }]], false));
    // TTL requests of one client while another client / the worker touches the same entry
    v.push(mk("upsert(ttl 500ms) || upsert(v)", vec![put_ttl(1, 30, 5000)], vec![vec![ups(false, None, Some(500), false)], vec![ups(true, None, None, false)]], false));
    v.push(mk("upsert(remove ttl,w) || upsert(v);upsert(v)", vec![put_ttl(1, 30, 5000)], vec![vec![ups(false, Some(30), None, true)], vec![ups(true, None, None, false), ups(true, None, None, false)]], false));
    // weight requests for two different keys that happen to ask for the same weight, back to back
    v.push(mk("upsert(a,w=50);upsert(b,v,w=50) unawaited", vec![put(1, 30), put(2, 21)], vec![vec![ups(false, Some(50), None, false), Op::Upsert { k: 2, value: true, w: Some(50), ttl_ms: None, remove_ttl: false }]], false));
    v.push(mk("upsert(a,w=50) || upsert(b,w=50)", vec![put(1, 30), put(2, 21)], vec![vec![ups(false, Some(50), None, false)], vec![Op::Upsert { k: 2, value: false, w: Some(50), ttl_ms: None, remove_ttl: false }]], false));
    // two upserts of an absent key in flight at once behave like two puts: one is refused, nothing is charged twice
    v.push(mk("upsert(v,ttl 1s);upsert(v,ttl 5s) unawaited on an absent key", vec![], vec![vec![ups(true, Some(30), Some(1000), false), ups(true, Some(30), Some(5000), false)]], false));
    v.push(mk("put_ttl(1h) unawaited;upsert(ttl 10s)", vec![], vec![vec![Op::Put { k: 1, w: Some(30), ttl_ms: Some(3_600_000) }, ups(true, Some(30), Some(10_000), false)]], false));
    v.push(mk("upsert(v) || get;get", vec![put(1, 30)], vec![vec![ups(true, None, None, false), get(1)], vec![get(1), get(1)]], false));
    v
}

pub fn def(ctx: &Ctx) -> PropertyDef {
    let quick = ctx.quick();
    let workers = ctx.workers;
    let mut scenarios: Vec<Scenario> = Vec::new();
    for (shards, ttl_extra, bystander) in [(2usize, 24i64, false), (4, 24, false), (2, 0, false), (2, 24, true)] {
        let name = seq_spec(ctx, shards, ttl_extra, bystander).name;
        scenarios.push(seq_scenario(move |c| seq_spec(c, shards, ttl_extra, bystander), &name));
    }
    for p in ilv_programs() {
        scenarios.push({
                let nthreads = p.threads.len();
                program_scenario(p, ilv_oracle(), move |c| crate::harness::ilv::tier_cfg(c, nthreads))
            });
    }
    let mut assumptions = COMMON_ASSUMPTIONS.to_vec();
    assumptions.push("requests without a value on a key that reads as absent fall under the documented PutOrUpdateValueMissing precondition and are not checked; no memory pressure (W = 1000..10000)");
    assumptions.push("for readable keys only an explicitly requested weight is compared with the charged weight");
    PropertyDef {
        id: "C08",
        technique: "explicit-state BFS over operation sequences with a before/after entry oracle and a differential twin-cache oracle (same history, corresponding put variant) + stateless preemption-bounded model checking with the worker frozen for visibility-at-return and the soft-deleted state; real code",
        rule: "seq: canonical states first reached at depth >= 2; ilv: distinct overlapping call/return histories",
        assumptions,
        scenarios,
    }
}
