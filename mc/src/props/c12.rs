//! C12 - every acknowledgement resolves exactly once to the command's real outcome.
//!
//! (a) micro harness, *unbounded* DFS: the real `CommandAcknowledgement`, a completer thread calling
//!     `done(s)` and one or two poller tasks polling 1..3 times with counting wakers, at the granularity
//!     of the individual accesses to the flag, the status mutex and the waker mutex.
//! (b) whole cache: a client awaits its own write with `block_on` (a lost wake-up is a deadlock) and
//!     checks that an accepted command's effect is visible right after the await.
use super::{Ctx, PropertyDef, Scenario, COMMON_ASSUMPTIONS};
use crate::cache::command::acknowledgement::CommandAcknowledgement;
use crate::cache::command::{CommandStatus, RejectionReason};
use crate::harness::ilv::*;
use crate::harness::kit::*;
use crate::harness::report::Collector;
use crate::verif_rt::{explore, world};
use serde_json::json;
use std::future::Future;
use std::sync::atomic::{AtomicU64, Ordering::SeqCst};
use std::sync::{Arc, Mutex};
use std::task::{Context, Poll, Wake, Waker};

struct CountingWaker {
    id: usize,
    wakes: Mutex<Vec<u64>>,
}
impl Wake for CountingWaker {
    fn wake(self: Arc<Self>) {
        self.wake_by_ref()
    }
    fn wake_by_ref(self: &Arc<Self>) {
        self.wakes.lock().unwrap().push(world::stamp());
    }
}

#[derive(Clone, Copy, Debug)]
struct Micro {
    status: CommandStatus,
    pollers: usize,
    polls: usize,
    change_waker: bool,
}

#[derive(Clone, Debug)]
struct PollRec {
    poller: usize,
    waker: usize,
    inv: u64,
    ret: u64,
    res: Option<CommandStatus>,
}

fn micro_body(m: Micro, col: Collector, bound: u32) -> Arc<dyn Fn() + Send + Sync> {
    Arc::new(move || {
        world::reset(Default::default());
        let ack = CommandAcknowledgement::new();
        let recs: Arc<Mutex<Vec<PollRec>>> = Arc::new(Mutex::new(Vec::new()));
        let wakers: Arc<Mutex<Vec<Arc<CountingWaker>>>> = Arc::new(Mutex::new(Vec::new()));
        let done_stamp = Arc::new(AtomicU64::new(0));
        let done_inv = Arc::new(AtomicU64::new(0));
        explore::window(true);
        let a = ack.clone();
        let ds = done_stamp.clone();
        let di = done_inv.clone();
        let completer = crate::harness::backend::spawn(move || {
            di.store(world::stamp(), SeqCst);
            a.done(m.status);
            ds.store(world::stamp(), SeqCst);
        });
        let mut hs = Vec::new();
        for p in 0..m.pollers {
            let a = ack.clone();
            let recs = recs.clone();
            let wakers = wakers.clone();
            hs.push(crate::harness::backend::spawn(move || {
                let mut cur: Option<Arc<CountingWaker>> = None;
                for i in 0..m.polls {
                    if cur.is_none() || (m.change_waker && i > 0) {
                        let mut ws = wakers.lock().unwrap();
                        let w = Arc::new(CountingWaker { id: ws.len(), wakes: Mutex::new(Vec::new()) });
                        ws.push(w.clone());
                        cur = Some(w);
                    }
                    let w = cur.clone().unwrap();
                    let waker = Waker::from(w.clone());
                    let mut cx = Context::from_waker(&waker);
                    let mut h = a.handle();
                    let inv = world::stamp();
                    let r = std::pin::Pin::new(&mut h).poll(&mut cx);
                    let ret = world::stamp();
                    recs.lock().unwrap().push(PollRec { poller: p, waker: w.id, inv, ret, res: match r { Poll::Ready(s) => Some(s), Poll::Pending => None } });
                }
            }));
        }
        completer.join().unwrap();
        for h in hs {
            h.join().unwrap();
        }
        explore::window(false);
        // one more poll after everything: must be Ready(status)
        let final_status = peek_status(&ack);
        if !explore::is_probe() {
            col.evaluated();
            let recs = recs.lock().unwrap().clone();
            let wakers = wakers.lock().unwrap().clone();
            let observed = json!({
                "polls": recs.iter().map(|r| format!("[{}..{}] poller{} waker{} -> {}", r.inv, r.ret, r.poller, r.waker, r.res.map(|s| format!("Ready({})", status_short(&s))).unwrap_or("Pending".into()))).collect::<Vec<_>>(),
                "wakes": wakers.iter().map(|w| format!("waker{}: {:?}", w.id, w.wakes.lock().unwrap())).collect::<Vec<_>>(),
                "done_returned_at": done_stamp.load(SeqCst),
                "final_poll": status_short(&final_status),
            });
            let mut findings = Vec::new();
            let mut first_ready: Option<u64> = None;
            for r in &recs {
                match r.res {
                    Some(CommandStatus::Pending) => findings.push(Finding::new("poll-returned-Ready(Pending)", "ack:Ready(Pending)", format!("poll [{}..{}] returned Ready(Pending) while done({}) was in progress", r.inv, r.ret, status_short(&m.status)))),
                    Some(s) if s != m.status => findings.push(Finding::new("poll-returned-wrong-status", "ack:wrong-status", format!("poll returned Ready({}) but the command ended with {}", status_short(&s), status_short(&m.status)))),
                    Some(_) => {
                        if first_ready.is_none() {
                            first_ready = Some(r.ret);
                        }
                    }
                    None => {
                        if let Some(fr) = first_ready {
                            if r.inv > fr {
                                findings.push(Finding::new("pending-after-ready", "ack:pending-after-ready", format!("poll [{}..{}] returned Pending after an earlier poll had returned Ready", r.inv, r.ret)));
                            }
                        }
                    }
                }
            }
            if final_status != m.status {
                findings.push(Finding::new("final-poll", if final_status == CommandStatus::Pending { "ack:never-completes" } else { "ack:wrong-status" }, format!("after done({}) returned a poll yields {}", status_short(&m.status), status_short(&final_status))));
            }
            // Future contract: the waker of the most recent poll must be woken if that poll returned Pending.
            // "Most recent" is only defined up to real-time overlap: take the polls after whose return no
            // other poll began; if none of them saw completion, at least one of their wakers must have been
            // woken (a wake during or after the poll counts; done() has returned by now).
            let maximal: Vec<&PollRec> = recs.iter().filter(|p| !recs.iter().any(|r| r.inv > p.ret)).collect();
            if !maximal.is_empty() && maximal.iter().all(|m| m.res.is_none()) {
                let woken = maximal.iter().any(|m| wakers[m.waker].wakes.lock().unwrap().iter().any(|s| *s > m.inv));
                if !woken {
                    let l = maximal[0];
                    findings.push(Finding::new("lost-wakeup", "ack:lost-wakeup", format!("the most recent poll [{}..{}] registered waker{} and returned Pending; done() has returned but that waker was never woken", l.inv, l.ret, l.waker)));
                }
            }
            let outcome: String = recs.iter().map(|r| format!("{}:{};", r.poller, r.res.map(|s| status_short(&s)).unwrap_or("P"))).collect::<String>() + &format!("wakes={}", wakers.iter().map(|w| w.wakes.lock().unwrap().len()).sum::<usize>());
            col.outcome(outcome.clone());
            // non-trivial: some poll overlapped done() in time
            let ds = done_stamp.load(SeqCst);
            let di = done_inv.load(SeqCst);
            if recs.iter().any(|r| r.inv < ds && r.ret > di) {
                col.nontrivial(&format!("{:?}", recs.iter().map(|r| (r.poller, r.inv, r.ret, r.res.is_some())).collect::<Vec<_>>()));
            }
            col.sample(observed.clone(), 2);
            for f in findings {
                report(&col, bound, f, observed.clone());
            }
        }
        drop(ack);
        world::finish();
    })
}

fn awaited_oracle() -> Oracle {
    Arc::new(|run: &Run, out: &mut Vec<Finding>| {
        // every Await result must be a real status; Accepted => effect visible in the following read
        for c in run.calls.iter().filter(|c| c.thread < PHASE_INIT) {
            if let Res::Status(sts) = &c.res {
                for (call, st) in sts {
                    let target = run.call(c.thread, *call).unwrap();
                    if *st == CommandStatus::Pending {
                        out.push(Finding::new("await-returned-Pending", "ack:Ready(Pending)", format!("awaiting {} yielded the placeholder status Pending", target.op.short())));
                        continue;
                    }
                    let fin = run.status_of(c.thread, *call);
                    if fin != Some(*st) {
                        out.push(Finding::new("await-status-changed", "ack:status-changed", format!("await of {} yielded {} but a later poll yields {:?}", target.op.short(), status_short(st), fin.map(|s| status_short(&s)))));
                    }
                    // the next op of this thread tells whether the effect is visible: a read of the same key, or the total
                    // weight right after an accepted delete (no other writer in these programs)
                    if let Some(next) = run.call(c.thread, c.idx + 1) {
                        if let (Op::TotalWeight, Res::Weight(w), Op::Upsert { k, w: Some(req), .. }, true) = (&next.op, &next.res, &target.op, *st == CommandStatus::Accepted) {
                            let old = run.obs_init.entry(*k).and_then(|e| run.obs_init.weight_of_id(e.2)).unwrap_or(0);
                            if *w != run.obs_init.weight_used - old + req {
                                out.push(Finding::new("accepted-effect-not-visible", "ack:accepted-upsert-weight-not-applied", format!("{} was acknowledged Accepted but total_weight_used() right after the await is {} (before: {}, the key weighed {}, {} requested)", target.op.short(), w, run.obs_init.weight_used, old, req)));
                            }
                        }
                        if let (Op::TotalWeight, Res::Weight(w), Op::Delete { k }, true) = (&next.op, &next.res, &target.op, *st == CommandStatus::Accepted) {
                            let released = run.obs_init.entry(*k).and_then(|e| run.obs_init.weight_of_id(e.2)).unwrap_or(0);
                            if *w != run.obs_init.weight_used - released {
                                out.push(Finding::new("accepted-effect-not-visible", "ack:accepted-delete-weight-still-counted", format!("{} was acknowledged Accepted but total_weight_used() right after the await is {} (before the delete: {}, the key weighs {})", target.op.short(), w, run.obs_init.weight_used, released)));
                            }
                        }
                        if let (Op::Read { k, .. }, Res::Read(got)) = (&next.op, &next.res) {
                            if Some(*k) == target.op.key() && *st == CommandStatus::Accepted {
                                match &target.op {
                                    Op::Put { .. } | Op::Upsert { value: true, .. } => {
                                        if *got != target.value {
                                            out.push(Finding::new("accepted-effect-not-visible", "ack:accepted-not-visible", format!("{} was acknowledged Accepted but the read right after the await returned {:?}", target.op.short(), got)));
                                        }
                                    }
                                    Op::Delete { .. } => {
                                        if got.is_some() {
                                            out.push(Finding::new("accepted-effect-not-visible", "ack:accepted-not-visible", format!("{} was acknowledged Accepted but the read right after the await returned {:?}", target.op.short(), got)));
                                        }
                                    }
                                    _ => {}
                                }
                            }
                        }
                    }
                }
            }
        }
    })
}

pub fn def(ctx: &Ctx) -> PropertyDef {
    let mut scenarios: Vec<Scenario> = Vec::new();
    let statuses = [CommandStatus::Accepted, CommandStatus::Rejected(RejectionReason::KeyDoesNotExist), CommandStatus::ShuttingDown];
    let mut micros: Vec<Micro> = Vec::new();
    for (si, s) in statuses.iter().enumerate() {
        for polls in 1..=3 {
            micros.push(Micro { status: *s, pollers: 1, polls, change_waker: false });
            if polls >= 2 && si == 0 {
                micros.push(Micro { status: *s, pollers: 1, polls, change_waker: true });
            }
        }
    }
    micros.push(Micro { status: CommandStatus::Accepted, pollers: 2, polls: 1, change_waker: false });
    // an acknowledgement handed from context to context many times (six distinct wakers, one after the other)
    micros.push(Micro { status: CommandStatus::Accepted, pollers: 1, polls: 6, change_waker: true });
    if !ctx.quick() {
        micros.push(Micro { status: CommandStatus::Accepted, pollers: 2, polls: 2, change_waker: false });
        micros.push(Micro { status: CommandStatus::ShuttingDown, pollers: 2, polls: 2, change_waker: true });
    }
    for m in micros {
        let name = format!("ack-micro/{}/pollers{}x{}{}", status_short(&m.status), m.pollers, m.polls, if m.change_waker { "/waker-changes" } else { "" });
        let workers = ctx.workers;
        scenarios.push(body_scenario(
            &name,
            json!({"completer": format!("done({})", status_short(&m.status)), "pollers": m.pollers, "polls_each": m.polls, "waker_changes_between_polls": m.change_waker}),
            true,
            move |col, bound| micro_body(m, col, bound),
            // unbounded DFS (bound 1000 can never bind: the harness has < 40 scheduling points)
            move |_ctx| IlvCfg { bounds: vec![1000], workers: if m.pollers * m.polls >= 2 { workers } else { 1 }, split_depth: 4, time_cap_s: Some(600.0), max_executions: None },
        ));
    }
    // whole cache: await inside the window
    let quick = ctx.quick();
    let mk = |name: &str, init: Vec<Op>, threads: Vec<Vec<Op>>| {
        let mut p = Program::new(name);
        p.setup = Setup { weight: 10, ..Setup::default() };
        p.init = init;
        p.threads = threads;
        p
    };
    let progs = vec![
        mk("await/put;await;get", vec![], vec![vec![Op::Put { k: 1, w: Some(2), ttl_ms: None }, Op::Await { call: 0 }, Op::Read { k: 1, variant: ReadVariant::Get }]]),
        mk("await/delete;await;get", vec![Op::Put { k: 1, w: Some(2), ttl_ms: None }], vec![vec![Op::Delete { k: 1 }, Op::Await { call: 0 }, Op::Read { k: 1, variant: ReadVariant::Get }]]),
        mk("await/upsert-weight;await", vec![Op::Put { k: 1, w: Some(2), ttl_ms: None }], vec![vec![Op::Upsert { k: 1, value: true, w: Some(3), ttl_ms: None, remove_ttl: false }, Op::Await { call: 0 }, Op::Read { k: 1, variant: ReadVariant::Get }]]),
        // the second life of a key that was evicted: accepted means readable, again
        mk("await/evicting-put;await;delete;await;put(evicted key);await;get", vec![Op::Put { k: 1, w: Some(6), ttl_ms: None }, Op::Put { k: 2, w: Some(4), ttl_ms: None }], vec![vec![Op::Put { k: 3, w: Some(7), ttl_ms: None }, Op::Await { call: 0 }, Op::Delete { k: 3 }, Op::Await { call: 2 }, Op::Put { k: 1, w: Some(6), ttl_ms: None }, Op::Await { call: 4 }, Op::Read { k: 1, variant: ReadVariant::Get }, Op::Put { k: 2, w: Some(4), ttl_ms: Some(5000) }, Op::Await { call: 7 }, Op::Read { k: 2, variant: ReadVariant::Get }]]),
        // acknowledgements of commands whose key is gone by the time the worker reaches them
        mk("await/delete;upsert-weight unawaited;await both", vec![Op::Put { k: 1, w: Some(2), ttl_ms: None }], vec![vec![Op::Delete { k: 1 }, Op::Upsert { k: 1, value: true, w: Some(3), ttl_ms: None, remove_ttl: false }, Op::Await { call: 0 }, Op::Await { call: 1 }]]),
        mk("await/delete;delete unawaited;await both", vec![Op::Put { k: 1, w: Some(2), ttl_ms: None }], vec![vec![Op::Delete { k: 1 }, Op::Delete { k: 1 }, Op::Await { call: 1 }, Op::Await { call: 0 }]]),
        mk("await/upsert-weight;await || {tick} sweeping k", vec![Op::Put { k: 1, w: Some(2), ttl_ms: Some(1000) }, Op::Advance { ms: 3000 }], vec![vec![Op::Upsert { k: 1, value: true, w: Some(3), ttl_ms: None, remove_ttl: false }, Op::Await { call: 0 }], vec![Op::Tick]]),
        mk("await/evicting-put;await || upsert-weight(a);await", vec![Op::Put { k: 1, w: Some(6), ttl_ms: None }, Op::Put { k: 2, w: Some(4), ttl_ms: None }], vec![vec![Op::Put { k: 3, w: Some(7), ttl_ms: None }, Op::Await { call: 0 }], vec![Op::Upsert { k: 1, value: true, w: Some(5), ttl_ms: None, remove_ttl: false }, Op::Await { call: 0 }]]),
        // an acknowledgement handed out while the cache shuts down resolves too
        mk("await/shutdown || put(b);await", vec![Op::Put { k: 1, w: Some(2), ttl_ms: None }], vec![vec![Op::Shutdown], vec![Op::Put { k: 2, w: Some(2), ttl_ms: None }, Op::Await { call: 0 }]]),
        // a multi-field upsert: the weight is applied by the time the acknowledgement says accepted
        mk("await/upsert(v,w,ttl) on a TTL key;await;total_weight", vec![Op::Put { k: 1, w: Some(2), ttl_ms: Some(5000) }, Op::Put { k: 2, w: Some(3), ttl_ms: None }], vec![vec![Op::Upsert { k: 1, value: true, w: Some(4), ttl_ms: Some(9000), remove_ttl: false }, Op::Await { call: 0 }, Op::TotalWeight]]),
        mk("await/upsert(w,remove ttl) on a TTL key;await;total_weight", vec![Op::Put { k: 1, w: Some(2), ttl_ms: Some(5000) }, Op::Put { k: 2, w: Some(3), ttl_ms: None }], vec![vec![Op::Upsert { k: 1, value: false, w: Some(4), ttl_ms: None, remove_ttl: true }, Op::Await { call: 0 }, Op::TotalWeight]]),
        // a time-to-live of zero under a clock that stands still: accepted means stored and charged
        mk("await/put_ttl(k, 0);await;get;total_weight", vec![], vec![vec![Op::Put { k: 1, w: Some(2), ttl_ms: Some(0) }, Op::Await { call: 0 }, Op::Read { k: 1, variant: ReadVariant::Get }, Op::TotalWeight]]),
        mk("await/delete;await;total_weight", vec![Op::Put { k: 1, w: Some(2), ttl_ms: None }, Op::Put { k: 2, w: Some(3), ttl_ms: None }], vec![vec![Op::Delete { k: 1 }, Op::Await { call: 0 }, Op::TotalWeight]]),
        mk("await/delete;await;total_weight /ttl", vec![Op::Put { k: 1, w: Some(2), ttl_ms: Some(5000) }, Op::Put { k: 2, w: Some(3), ttl_ms: None }], vec![vec![Op::Delete { k: 1 }, Op::Await { call: 0 }, Op::TotalWeight]]),
        // the status an acknowledgement resolves to is the command's real outcome: a duplicate queued behind its twin
        mk("await/put_ttl(k);put_ttl(k) unawaited;await the second;get(k)", vec![], vec![vec![Op::Put { k: 1, w: Some(2), ttl_ms: Some(5000) }, Op::Put { k: 1, w: Some(3), ttl_ms: Some(5000) }, Op::Await { call: 1 }, Op::Read { k: 1, variant: ReadVariant::Get }]]),
        mk("await/put(k);put(k) unawaited;await the second;get(k)", vec![], vec![vec![Op::Put { k: 1, w: Some(2), ttl_ms: None }, Op::Put { k: 1, w: Some(3), ttl_ms: None }, Op::Await { call: 1 }, Op::Read { k: 1, variant: ReadVariant::Get }]]),
        // acknowledgements while the worker's eviction meets the sweeper / the access-count consumer
        mk("await/evicting-put (victim has a TTL);await || {tick} sweeping b", vec![Op::Put { k: 1, w: Some(4), ttl_ms: Some(9000) }, Op::Put { k: 2, w: Some(4), ttl_ms: Some(1000) }, Op::Advance { ms: 3000 }], vec![vec![Op::Put { k: 3, w: Some(9), ttl_ms: None }, Op::Await { call: 0 }], vec![Op::Tick]]),
        {
            let mut p = mk("await/evicting-put;await || get(a);get(a);get(a) (buffer hand-over) [writer-preferring rwlocks]", vec![Op::Put { k: 1, w: Some(6), ttl_ms: None }, Op::Put { k: 2, w: Some(4), ttl_ms: None }], vec![vec![Op::Put { k: 3, w: Some(7), ttl_ms: None }, Op::Await { call: 0 }], vec![Op::Read { k: 1, variant: ReadVariant::Get }, Op::Read { k: 1, variant: ReadVariant::Get }, Op::Read { k: 1, variant: ReadVariant::Get }]]);
            p.setup.buffer = 1;
            p.world.fair_rwlocks = true;
            p
        },
        mk(
            "await/two-clients",
            vec![],
            vec![vec![Op::Put { k: 1, w: Some(2), ttl_ms: None }, Op::Await { call: 0 }, Op::Read { k: 1, variant: ReadVariant::Get }], vec![Op::Put { k: 2, w: Some(2), ttl_ms: None }, Op::Await { call: 0 }, Op::Read { k: 2, variant: ReadVariant::Get }]],
        ),
    ];
    for p in progs {
        let two = p.threads.len() > 1;
        let workers = ctx.workers;
        scenarios.push({
                let nthreads = p.threads.len();
                program_scenario(p, awaited_oracle(), move |c| crate::harness::ilv::tier_cfg(c, nthreads))
            });
    }
    let mut assumptions = COMMON_ASSUMPTIONS.to_vec();
    assumptions.push("the waker contract is checked with counting wakers: a wake during or after the poll that registered it counts, a wake before it does not");
    PropertyDef {
        id: "C12",
        technique: "stateless model checking of the real code: exhaustive (unbounded) DFS over all interleavings of done() with 1-2 polling tasks at the granularity of flag/status/waker accesses; preemption-bounded DFS of whole-cache await programs (shuttle runtime, own scheduler)",
        rule: "ilv: every schedule of each listed scenario; distinct_nontrivial = distinct poll/return histories in which a poll overlapped done() (micro) or calls of different tasks overlapped (whole cache)",
        assumptions,
        scenarios,
    }
}
