//! C06 - admission follows the TinyLFU rule: colder keys never evict hotter ones.
//!
//! exh: the real `AdmissionPolicy` is driven directly (its consumer thread runs under the default
//! schedule): residents are admitted, their access frequencies are produced by handing buffers over and
//! waiting for the consumer, the estimates are *read back* and used as the oracle's inputs, then one
//! incoming key is offered to `maybe_add` with a recording delete hook. The `admission_victim` events give
//! the sample and the victim of every round. All resident sequences x incoming keys up to the bounds.
use super::{Ctx, PropertyDef, ReplayOutcome, Scenario};
use crate::cache::buffer_event::{BufferConsumer, BufferEvent};
use crate::cache::command::{CommandStatus, RejectionReason};
use crate::cache::key_description::KeyDescription;
use crate::cache::policy::admission_policy::AdmissionPolicy;
use crate::cache::policy::config::CacheWeightConfig;
use crate::cache::stats::ConcurrentStatsCounter;
use crate::harness::kit::{status_short, K};
use crate::harness::report::{Collector, ScenarioResult, Violation};
use crate::verif_rt::explore;
use crate::verif_rt::world::{self, WorldCfg};
use serde_json::{json, Value};
use std::sync::{Arc, Mutex};

#[derive(Clone, Debug)]
pub struct Case {
    pub w: i64,
    /// residents in admission order: (weight, number of accesses delivered before the offer)
    pub residents: Vec<(i64, u32)>,
    pub incoming_weight: i64,
    pub incoming_accesses: u32,
    pub single_shard: bool,
    /// DashMap iteration order as an enumerated choice is not available outside the explorer; instead the
    /// residents sequence itself is enumerated in every order
    pub constant_hash: bool,
}

impl Case {
    fn to_json(&self) -> Value {
        json!({"W": self.w, "residents": self.residents, "incoming_weight": self.incoming_weight, "incoming_accesses": self.incoming_accesses, "single_shard": self.single_shard, "constant_hash": self.constant_hash})
    }
    fn from_json(v: &Value) -> Case {
        Case {
            w: v["W"].as_i64().unwrap_or(1),
            residents: v["residents"].as_array().map(|a| a.iter().map(|p| (p[0].as_i64().unwrap_or(1), p[1].as_u64().unwrap_or(0) as u32)).collect()).unwrap_or_default(),
            incoming_weight: v["incoming_weight"].as_i64().unwrap_or(1),
            incoming_accesses: v["incoming_accesses"].as_u64().unwrap_or(0) as u32,
            single_shard: v["single_shard"].as_bool().unwrap_or(false),
            constant_hash: v["constant_hash"].as_bool().unwrap_or(false),
        }
    }
}

fn deliver(policy: &AdmissionPolicy<K>, hashes: Vec<u64>) {
    if hashes.is_empty() {
        return;
    }
    // chunks small enough for the channel; wait until the consumer applied each
    for chunk in hashes.chunks(8) {
        let before = world::count("batch_applied");
        policy.accept(BufferEvent::Full(chunk.to_vec()));
        world::wait_event("batch_applied", before + 1);
    }
}

/// One case, inside a shuttle execution (default schedule).
fn check_case(case: &Case, col: &Collector) {
    world::reset(WorldCfg { dash_single_shard: case.single_shard, ..WorldCfg::default() });
    let stats = Arc::new(ConcurrentStatsCounter::new());
    // `capacity` is a sizing hint only: the single-shard half of the table runs with a hint of 2, far below the number
    // of residents, and must decide exactly like the other half
    let capacity_hint = if case.single_shard { 2 } else { 16 };
    let (policy, bg) = world::constructing(|| AdmissionPolicy::<K>::new(4096, CacheWeightConfig::new(capacity_hint, 2, case.w), stats.clone()));
    crate::verif_rt::sched::rt::settle(&bg);
    let deleted: Arc<Mutex<Vec<K>>> = Arc::new(Mutex::new(Vec::new()));
    let d2 = deleted.clone();
    let hook = move |k: K| d2.lock().unwrap().push(k);
    let hash_of = |key: K| if case.constant_hash { 7 } else { key };
    let mut findings: Vec<(String, String, String)> = Vec::new();

    // residents: key i+1, id i+1
    let mut used = 0i64;
    for (i, (w, _)) in case.residents.iter().enumerate() {
        let key = i as u64 + 1;
        let st = policy.maybe_add(&KeyDescription::new(key, key, hash_of(key), *w), &hook);
        if st != CommandStatus::Accepted {
            findings.push(("setup".into(), "admission:fitting-put-refused".into(), format!("resident {} (weight {}) was refused with {} although {} of {} was free", key, w, status_short(&st), case.w - used, case.w)));
        }
        used += *w;
    }
    // access profile
    let mut hashes = Vec::new();
    for (i, (_, n)) in case.residents.iter().enumerate() {
        for _ in 0..*n {
            hashes.push(hash_of(i as u64 + 1));
        }
    }
    let inc_key: K = 100;
    for _ in 0..case.incoming_accesses {
        hashes.push(hash_of(inc_key));
    }
    deliver(&policy, hashes);
    // estimates are inputs of the oracle: read them back
    let est: Vec<u8> = (0..case.residents.len()).map(|i| policy.estimate(hash_of(i as u64 + 1))).collect();
    let inc_est = policy.estimate(hash_of(inc_key));
    let before = policy.verif_cache_weight().verif_snapshot();
    let used_before = policy.weight_used();
    let mark = world::with(|w| w.events.len());

    let inc_id = 1000u64;
    let status = policy.maybe_add(&KeyDescription::new(inc_key, inc_id, hash_of(inc_key), case.incoming_weight), &hook);

    let events: Vec<Vec<i64>> = world::with(|w| w.events[mark..].iter().filter(|e| e.kind == "admission_victim").map(|e| e.data.clone()).collect());
    let after = policy.verif_cache_weight().verif_snapshot();
    let used_after = policy.weight_used();
    let hooked = deleted.lock().unwrap().clone();
    let w_in = case.incoming_weight;
    let charged_after = after.iter().any(|e| e.0 == inc_id);

    if used_before != used {
        findings.push(("setup".into(), "admission:resident-weights-not-charged".into(), format!("residents weigh {} but {} is charged", used, used_before)));
    }
    if w_in > case.w {
        if status != CommandStatus::Rejected(RejectionReason::KeyWeightIsGreaterThanCacheWeight) {
            findings.push(("too-heavy".into(), "admission:too-heavy-key-not-rejected-for-that-reason".into(), format!("a key of weight {} offered to a cache of weight {} ended with {}", w_in, case.w, status_short(&status))));
        }
        if !events.is_empty() || after.len() != before.len() || used_after != used_before || !hooked.is_empty() {
            findings.push(("too-heavy-changed-state".into(), "admission:too-heavy-key-changed-state".into(), format!("a too heavy key changed the cache: evicted {:?}, total {} -> {}", hooked, used_before, used_after)));
        }
    } else if case.w - used_before >= w_in {
        if status != CommandStatus::Accepted {
            findings.push(("fits".into(), "admission:fitting-put-refused".into(), format!("weight {} fits in the free space {} but the put ended with {}", w_in, case.w - used_before, status_short(&status))));
        }
        if !events.is_empty() || !hooked.is_empty() {
            findings.push(("fits-evicted".into(), "admission:fitting-put-evicted".into(), format!("weight {} fits in the free space {} but keys {:?} were evicted", w_in, case.w - used_before, hooked)));
        }
        if status == CommandStatus::Accepted && (!charged_after || used_after != used_before + w_in) {
            findings.push(("fits-charge".into(), "admission:accepted-put-not-charged".into(), format!("accepted weight {} but the total went {} -> {}", w_in, used_before, used_after)));
        }
    } else {
        // eviction rounds
        let mut remaining: Vec<(u64, i64, u8)> = before.iter().map(|e| (e.0, e.3, est[(e.0 - 1) as usize])).collect();
        let mut free = case.w - used_before;
        let mut evicted: Vec<u64> = Vec::new();
        let mut stopped_by_hotter_victim = false;
        for (ri, e) in events.iter().enumerate() {
            let (ev_inc_est, ev_space, vid, vw, vest, n) = (e[2] as u8, e[3], e[4] as u64, e[5], e[6] as u8, e[7] as usize);
            let sample: Vec<(u64, i64, u8)> = (0..n).map(|j| (e[8 + 3 * j] as u64, e[9 + 3 * j], e[10 + 3 * j] as u8)).collect();
            let ctx = format!("round {}: sample {:?}, victim #{} (weight {}, estimate {}), incoming estimate {}, free {}", ri + 1, sample, vid, vw, vest, ev_inc_est, ev_space);
            if stopped_by_hotter_victim {
                findings.push(("continued-after-hotter-victim".into(), "admission:continued-after-hotter-victim".into(), ctx.clone()));
            }
            if free >= w_in {
                findings.push(("evicted-more-than-needed".into(), "admission:round-after-enough-space".into(), format!("{} although {} was already free for weight {}", ctx, free, w_in)));
            }
            if ev_inc_est != inc_est {
                findings.push(("incoming-estimate".into(), "admission:incoming-estimate-differs".into(), format!("{} but the sketch estimates the incoming key at {}", ctx, inc_est)));
            }
            if ev_space != free {
                findings.push(("space-bookkeeping".into(), "admission:space-bookkeeping".into(), format!("{} but {} is free", ctx, free)));
            }
            // the sample: distinct residents still present, min(5, remaining) of them, with their true weight and estimate
            let mut ids: Vec<u64> = sample.iter().map(|s| s.0).collect();
            ids.sort();
            ids.dedup();
            if ids.len() != sample.len() {
                findings.push(("sample-duplicates".into(), "admission:sample-has-duplicates".into(), ctx.clone()));
            }
            if sample.len() != remaining.len().min(5) {
                findings.push(("sample-size".into(), "admission:sample-size".into(), format!("{} but {} residents remain", ctx, remaining.len())));
            }
            for s in &sample {
                match remaining.iter().find(|r| r.0 == s.0) {
                    None => findings.push(("sample-foreign".into(), "admission:sample-contains-non-resident".into(), ctx.clone())),
                    Some(r) => {
                        if r.1 != s.1 || r.2 != s.2 {
                            findings.push(("sample-attributes".into(), "admission:sample-weight-or-estimate-wrong".into(), format!("{} but resident #{} has weight {} and estimate {}", ctx, r.0, r.1, r.2)));
                        }
                    }
                }
            }
            // the victim is a coldest member of the sample (any member of a tie)
            let min_est = sample.iter().map(|s| s.2).min().unwrap_or(0);
            if !sample.iter().any(|s| s.0 == vid) {
                findings.push(("victim-not-in-sample".into(), "admission:victim-not-in-sample".into(), ctx.clone()));
            } else if vest != min_est {
                findings.push(("victim-not-coldest".into(), "admission:victim-not-coldest".into(), format!("{} but the coldest sampled estimate is {}", ctx, min_est)));
            }
            if vest > inc_est {
                // a hotter victim stops the admission: it must not be evicted
                stopped_by_hotter_victim = true;
                if hooked.contains(&vid) || !after.iter().any(|a| a.0 == vid) {
                    findings.push(("hotter-key-evicted".into(), "admission:colder-key-evicted-hotter-one".into(), format!("{}: the victim is hotter than the incoming key but was evicted", ctx)));
                }
            } else {
                evicted.push(vid);
                free += vw;
                remaining.retain(|r| r.0 != vid);
                if !hooked.contains(&vid) || after.iter().any(|a| a.0 == vid) {
                    findings.push(("victim-not-evicted".into(), "admission:victim-not-evicted".into(), format!("{}: the victim should have been evicted (delete hook calls: {:?})", ctx, hooked)));
                }
            }
        }
        let mut h = hooked.clone();
        h.sort();
        let mut ev = evicted.clone();
        ev.sort();
        if h != ev {
            findings.push(("evicted-set".into(), "admission:evicted-set-differs-from-victims".into(), format!("victims {:?} but the delete hook saw {:?}", ev, h)));
        }
        let should_accept = free >= w_in;
        if should_accept != (status == CommandStatus::Accepted) {
            findings.push((
                "accept-iff-space".into(),
                if should_accept { "admission:enough-space-but-rejected".into() } else { "admission:accepted-without-space".into() },
                format!("after evicting {:?} the free space is {} for weight {} but the put ended with {}", evicted, free, w_in, status_short(&status)),
            ));
        }
        if !should_accept {
            if status != CommandStatus::Rejected(RejectionReason::EnoughSpaceIsNotAvailableAndKeyFailedToEvictOthers) {
                findings.push(("reject-reason".into(), "admission:wrong-rejection-reason".into(), format!("not enough space, but the put ended with {}", status_short(&status))));
            }
            if !stopped_by_hotter_victim && !remaining.is_empty() {
                findings.push(("unjustified-stop".into(), "admission:stopped-without-reason".into(), format!("rejected although residents {:?} remain and none examined was hotter than the incoming key (estimate {})", remaining, inc_est)));
            }
            if charged_after {
                findings.push(("rejected-but-charged".into(), "admission:rejected-key-charged".into(), "the rejected key is charged".to_string()));
            }
            if used_after != case.w - free {
                findings.push(("total-after-reject".into(), "admission:total-wrong-after-reject".into(), format!("total {} after rejection, expected {}", used_after, case.w - free)));
            }
        } else if status == CommandStatus::Accepted {
            let expect = case.w - free + w_in;
            if !charged_after || used_after != expect || used_after > case.w {
                findings.push(("total-after-accept".into(), "admission:total-wrong-after-accept".into(), format!("accepted: total {} (expected {}, limit {}), charged={}", used_after, expect, case.w, charged_after)));
            }
        }
        if !events.is_empty() {
            col.nontrivial(&format!("{:?}", case));
        }
    }
    col.evaluated();
    col.count("steps", 1 + events.len() as u64);
    col.outcome(format!("{}:{}victims", status_short(&status), events.len()));
    if events.len() >= 2 {
        col.sample(json!({"case": case.to_json(), "estimates": est, "incoming_estimate": inc_est, "status": status_short(&status), "rounds": events.len(), "evicted": hooked}), 3);
    }
    for (clause, sig, detail) in findings {
        col.violation(Violation { clause, signature: sig, detail: format!("{} | case {:?} estimates {:?} incoming estimate {}", detail, case, est, inc_est), replay: json!({"kind": "input", "input": case.to_json()}), cost: case.residents.len() });
    }
    drop(policy);
    world::finish();
}

pub fn cases(quick: bool) -> Vec<Case> {
    let mut out = Vec::new();
    let weights: Vec<i64> = vec![1, 2, 3];
    // number of recorded accesses -> estimate min(n, 16): 15 is the 4-bit ceiling, 16 = ceiling + first-access bit
    let freqs: Vec<u32> = if quick { vec![0, 1, 3, 17] } else { vec![0, 1, 2, 3, 15, 16, 17] };
    let inc_freqs: Vec<u32> = if quick { vec![0, 1, 3, 15, 16, 17] } else { vec![0, 1, 2, 3, 15, 16, 17] };
    let ws: Vec<i64> = if quick { vec![3, 4] } else { vec![3, 4, 5, 6] };
    let max_len = if quick { 3 } else { 4 };
    for &w in &ws {
        // all resident sequences (order matters: it decides shard placement and iteration order)
        let mut seqs: Vec<Vec<(i64, u32)>> = vec![vec![]];
        let mut frontier: Vec<Vec<(i64, u32)>> = vec![vec![]];
        for _ in 0..max_len {
            let mut next = Vec::new();
            for s in &frontier {
                let used: i64 = s.iter().map(|r| r.0).sum();
                for &rw in &weights {
                    if used + rw > w {
                        continue;
                    }
                    for &f in &freqs {
                        let mut t = s.clone();
                        t.push((rw, f));
                        next.push(t);
                    }
                }
            }
            seqs.extend(next.iter().cloned());
            frontier = next;
        }
        for s in seqs {
            for iw in 1..=w + 1 {
                for &f in &inc_freqs {
                    for single in [false, true] {
                        if single && (s.len() < 2 || quick && iw % 2 == 0) {
                            continue;
                        }
                        out.push(Case { w, residents: s.clone(), incoming_weight: iw, incoming_accesses: f, single_shard: single, constant_hash: false });
                    }
                }
            }
        }
    }
    // samples smaller / larger than the population: 0..=7 residents of weight 1 in a cache of weight 7, 8
    for n in 0..=7usize {
        let profiles: Vec<Vec<u32>> = vec![vec![0; n], (0..n as u32).collect(), (0..n as u32).rev().collect(), (0..n as u32).map(|i| if i % 2 == 0 { 17 } else { 1 }).collect(), vec![2; n]];
        for p in profiles {
            for w in [7i64, 8] {
                for iw in [1i64, 2, 3, 5, w, w + 1] {
                    for f in [0u32, 1, 2, 3, 15, 17] {
                        for constant_hash in [false, true] {
                            out.push(Case { w, residents: p.iter().map(|f| (1, *f)).collect(), incoming_weight: iw, incoming_accesses: f, single_shard: false, constant_hash });
                        }
                    }
                }
            }
        }
    }
    out
}

fn run(ctx: &Ctx) -> ScenarioResult {
    let t0 = std::time::Instant::now();
    let all = Arc::new(cases(ctx.quick()));
    let n = all.len();
    let col = Collector::new();
    let workers = ctx.workers.max(1);
    let chunk = (n + workers - 1) / workers;
    let mut hs = Vec::new();
    for w in 0..workers {
        let (lo, hi) = (w * chunk, ((w + 1) * chunk).min(n));
        if lo >= hi {
            continue;
        }
        let (all, col) = (all.clone(), col.clone());
        hs.push(
            std::thread::Builder::new()
                .stack_size(8 << 20)
                .spawn(move || {
                    let (a2, c2) = (all.clone(), col.clone());
                    let failures = explore::run_batch(lo..hi, Arc::new(move |i| check_case(&a2[i], &c2)));
                    for (i, kind, msg) in failures {
                        col.violation(Violation { clause: kind.to_string(), signature: format!("{}:admission", kind), detail: format!("{} in case {:?}", msg, all[i]), replay: json!({"kind": "input", "input": all[i].to_json()}), cost: 0 });
                    }
                })
                .unwrap(),
        );
    }
    for h in hs {
        if h.join().is_err() {
            eprintln!("MACHINERY-ERROR C06 worker panicked");
            std::process::exit(2);
        }
    }
    let g = col.0.lock().unwrap();
    ScenarioResult {
        name: "exh/admission-decision-table".into(),
        engine: "exh",
        params: json!({"cases": n, "cache_weights": if ctx.quick() { vec![3, 4, 7, 8] } else { vec![3, 4, 5, 6, 7, 8] }, "resident_weights": [1, 2, 3], "accesses": if ctx.quick() { vec![0, 1, 3, 17] } else { vec![0, 1, 2, 3, 16, 17] }, "residents": "all sequences up to the length that fits + 0..=7 unit residents"}),
        evaluations: g.evaluations,
        states: g.evaluations.max(1),
        transitions: g.counters.get("steps").copied().unwrap_or(1).max(1),
        validated: g.evaluations,
        distinct_nontrivial: g.nontrivial.len() as u64,
        distinct_outcomes: g.outcomes.len() as u64,
        outcomes: g.outcomes.clone(),
        bound: None,
        depth: None,
        exhaustive: true,
        capped: None,
        samples: g.samples.clone(),
        violations: g.violations.values().cloned().collect(),
        wall_s: t0.elapsed().as_secs_f64(),
        counters: g.counters.clone(),
        suspicious: None,
    }
}

// ---------------------------------------------------------------------------------------------- seq
// The same rule through the whole pipeline: reads -> pool buffers -> consumer -> sketch -> admission.
use crate::harness::kit::*;
use crate::harness::seq::{seq_scenario, Finding, SeqOracle, SeqRun, SeqSpec};
use crate::props::common::{is_put_path, model_read};

fn pipeline_oracle() -> SeqOracle {
    Arc::new(|run: &SeqRun, out: &mut Vec<Finding>| {
        let i = run.last();
        let c = &run.calls[i];
        if !(matches!(c.op, Op::Put { .. }) || is_put_path(c)) {
            return;
        }
        let (b, a) = (run.before(), run.after());
        let st = run.statuses[i];
        let k = c.op.key().unwrap();
        let w_in = match &c.op {
            Op::Put { w: Some(w), .. } | Op::Upsert { w: Some(w), .. } => *w,
            _ => return,
        };
        if b.entry(k).is_some() {
            return; // answered on the spot / not an admission
        }
        let est_of_key = |key: K| b.estimates.get((key - 1) as usize).copied().unwrap_or(0);
        let key_of_id = |id: u64| b.weights.iter().find(|w| w.0 == id).map(|w| w.1);
        let free = b.max_weight - b.weight_used;
        let rounds: Vec<&Vec<i64>> = run.events_per_step[i].iter().filter(|e| e.kind == "admission_victim").map(|e| &e.data).collect();
        if w_in > b.max_weight {
            if st != Some(CommandStatus::Rejected(RejectionReason::KeyWeightIsGreaterThanCacheWeight)) || a.store != b.store {
                out.push(Finding::new("too-heavy", "admission:too-heavy-key-not-rejected-for-that-reason", format!("{} (cache weight {}) ended with {:?}", c.op.short(), b.max_weight, st.map(|s| status_short(&s)))));
            }
            return;
        }
        if free >= w_in {
            if st != Some(CommandStatus::Accepted) || !rounds.is_empty() || b.store.iter().any(|e| a.entry(e.0).is_none()) {
                out.push(Finding::new("fits", "admission:fitting-put-refused-or-evicted", format!("{} fits in the free space {} but ended with {:?} after {} eviction rounds", c.op.short(), free, st.map(|s| status_short(&s)), rounds.len())));
            }
            return;
        }
        let inc_est = est_of_key(k);
        let mut freed = free;
        let mut stopped = false;
        for (ri, e) in rounds.iter().enumerate() {
            let (ev_inc, vid, vw, vest, n) = (e[2] as u8, e[4] as u64, e[5], e[6] as u8, e[7] as usize);
            let sample: Vec<(u64, i64, u8)> = (0..n).map(|j| (e[8 + 3 * j] as u64, e[9 + 3 * j], e[10 + 3 * j] as u8)).collect();
            let ctx = format!("round {} of {}: sample {:?}, victim #{} (w {}, estimate {}), incoming estimate {}", ri + 1, c.op.short(), sample, vid, vw, vest, ev_inc);
            if ev_inc != inc_est {
                out.push(Finding::new("incoming-estimate", "admission:incoming-estimate-differs", format!("{} but the sketch estimated the incoming key at {} before the call", ctx, inc_est)));
            }
            for s in &sample {
                match key_of_id(s.0) {
                    Some(key) => {
                        if est_of_key(key) != s.2 {
                            out.push(Finding::new("sample-attributes", "admission:sample-weight-or-estimate-wrong", format!("{} but key {} (id #{}) had estimate {} before the call", ctx, key, s.0, est_of_key(key))));
                        }
                    }
                    None => out.push(Finding::new("sample-foreign", "admission:sample-contains-non-resident", ctx.clone())),
                }
            }
            let min_est = sample.iter().map(|s| s.2).min().unwrap_or(0);
            if vest != min_est {
                out.push(Finding::new("victim-not-coldest", "admission:victim-not-coldest", format!("{} but the coldest sampled estimate is {}", ctx, min_est)));
            }
            if stopped || freed >= w_in {
                out.push(Finding::new("extra-round", "admission:round-after-enough-space", ctx.clone()));
            }
            let victim_key = key_of_id(vid);
            let gone = victim_key.map(|vk| a.entry(vk).map(|x| x.2 != vid).unwrap_or(true)).unwrap_or(true);
            if vest > inc_est {
                stopped = true;
                if gone {
                    out.push(Finding::new("hotter-key-evicted", "admission:colder-key-evicted-hotter-one", format!("{}: the victim is hotter than the incoming key but is gone", ctx)));
                }
            } else {
                freed += vw;
                if !gone {
                    out.push(Finding::new("victim-not-evicted", "admission:victim-not-evicted", ctx.clone()));
                }
                // evicted keys are unreadable afterwards
                if let Some(vk) = victim_key {
                    if vk != k && model_read(a, vk).0.is_some() && a.entry(vk).map(|x| x.2 == vid).unwrap_or(false) {
                        out.push(Finding::new("evicted-key-readable", "admission:evicted-key-still-readable", ctx.clone()));
                    }
                }
            }
        }
        let should_accept = freed >= w_in;
        if should_accept != (st == Some(CommandStatus::Accepted)) {
            out.push(Finding::new("accept-iff-space", if should_accept { "admission:enough-space-but-rejected" } else { "admission:accepted-without-space" }, format!("{}: {} free after the rounds for weight {}, status {:?}", c.op.short(), freed, w_in, st.map(|s| status_short(&s)))));
        }
        if !should_accept && !stopped && b.weights.len() > rounds.len() {
            out.push(Finding::new("unjustified-stop", "admission:stopped-without-reason", format!("{} was rejected although residents remain and no examined victim was hotter (incoming estimate {})", c.op.short(), inc_est)));
        }
        if a.weight_used > a.max_weight {
            out.push(Finding::new("over-limit", "admission:total-over-limit", format!("{} left the total at {} > {}", c.op.short(), a.weight_used, a.max_weight)));
        }
        let evicted = b.store.iter().filter(|e| e.0 != k && a.entry(e.0).is_none()).count() as u64;
        if a.stats[KEYS_DELETED] - b.stats[KEYS_DELETED] != evicted {
            out.push(Finding::new("evicted-count", "admission:keys-deleted-differs-from-evictions", format!("{} evicted {} keys but KeysDeleted moved by {}", c.op.short(), evicted, a.stats[KEYS_DELETED] - b.stats[KEYS_DELETED])));
        }
    })
}

fn pipeline_spec(ctx: &Ctx, w: i64, capacity: usize) -> SeqSpec {
    let mut alphabet: Vec<Op> = Vec::new();
    for k in 1..=4u64 {
        alphabet.push(Op::Read { k, variant: ReadVariant::Get });
    }
    for (k, wt) in [(1u64, 1i64), (2, 2), (3, 1), (3, 3), (4, 2), (4, w), (4, w + 1)] {
        alphabet.push(Op::Put { k, w: Some(wt), ttl_ms: None });
    }
    alphabet.push(Op::Delete { k: 1 });
    SeqSpec {
        name: format!("seq/admission-through-the-pipeline/W={}{}", w, if capacity == 8 { String::new() } else { format!("/capacity={}", capacity) }),
        // buffer 1: every second hit hands a one-element buffer to the consumer; large window: no ageing in between;
        // `capacity` is only a sizing hint: a value below the number of resident keys must not change any decision
        setup: Setup { weight: w, buffer: 1, counters: 256, capacity, ..Setup::default() },
        world: Default::default(),
        prefix: vec![],
        alphabet,
        depth: if ctx.quick() { 7 } else { 8 },
        allow: None,
        oracle: pipeline_oracle(),
        keys: vec![1, 2, 3, 4],
        canon_sketch: true,
        ghost_key: None,
        max_states: 3_000_000,
        time_cap_s: 20.0,
    }
}

// ---------------------------------------------------------------------------------------------- ilv
/// The eviction loop while the sweeper releases weight behind the worker's back. Sound under every interleaving:
///  * an accepted put leaves the total within the cache weight ("enough space resulted");
///  * if the sweep had finished before the worker examined its first victim and the put still ended with "not
///    enough space" although the space free at the end (nothing else frees or charges weight) holds the key, the
///    loop did not look at the space that resulted;
///  * the victims actually evicted are exactly the keys that left the store besides the swept ones.
fn ilv_oracle() -> crate::harness::ilv::Oracle {
    use crate::harness::ilv::{Finding, Run};
    Arc::new(|run: &Run, out: &mut Vec<Finding>| {
        // the subject is the put of key 4 (in the window, or as a probe after it)
        let put = match run.calls.iter().find(|c| matches!(c.op, Op::Put { k: 4, .. })) {
            Some(p) => p,
            None => return,
        };
        let weight = match &put.op {
            Op::Put { w: Some(w), .. } => *w,
            _ => return,
        };
        let st = run.status_of(put.thread, put.idx);
        let o = if put.thread == PHASE_POST { &run.obs_post } else { &run.obs_end };
        let charged: i64 = o.weights.iter().map(|w| w.3).sum();
        let victims: Vec<&crate::verif_rt::common::Event> = run.events.iter().filter(|e| e.kind == "admission_victim").collect();
        let evictions: Vec<&&crate::verif_rt::common::Event> = victims.iter().filter(|e| e.data[6] <= e.data[2]).collect();
        let sweeps: Vec<u64> = run.events.iter().filter(|e| e.kind == "sweep_done").map(|e| e.seq).collect();
        match st {
            Some(CommandStatus::Accepted) => {
                if o.weight_used > o.max_weight || charged > o.max_weight {
                    out.push(Finding::new("accept-iff-space", "admission:accepted-without-enough-space", format!("{} was accepted but the total weight ends at {} (charged keys: {}) > {}", put.short(), o.weight_used, charged, o.max_weight)));
                }
                if model_read(o, put.op.key().unwrap()).0 != put.value {
                    out.push(Finding::new("accepted-put-not-stored", "admission:accepted-put-not-readable", format!("{} was accepted but the key does not read back", put.short())));
                }
            }
            Some(CommandStatus::Rejected(RejectionReason::EnoughSpaceIsNotAvailableAndKeyFailedToEvictOthers)) => {
                // a probe put (nothing else running): what is free is the cache weight minus what the held keys are
                // charged; a put that fits into that is always accepted
                if put.thread == PHASE_POST {
                    let truly_free = run.obs_end.max_weight - run.obs_end.weights.iter().map(|w| w.3).sum::<i64>();
                    if weight <= truly_free {
                        out.push(Finding::new("fits-but-rejected", "admission:fits-in-free-space-but-rejected", format!("{} weighs {} and {} is free (cache weight minus the charged keys) but it ended with not-enough-space", put.short(), weight, truly_free)));
                    }
                }
                let free = o.max_weight - o.weight_used;
                let swept_before_first_victim = victims.first().map_or(false, |v| sweeps.iter().any(|s| *s < v.seq));
                if swept_before_first_victim && !evictions.is_empty() && free >= weight {
                    out.push(Finding::new("accept-iff-space", "admission:enough-space-but-rejected", format!("{} ended with not-enough-space although the sweep had finished before the first victim was examined, {} victims were evicted and {} is free at the end", put.short(), evictions.len(), free)));
                }
            }
            _ => {}
        }
        // every eviction round is justified: the space the loop believed in never exceeds what was really free
        for v in &victims {
            if v.data[3] >= v.data[1] {
                out.push(Finding::new("evicted-more-than-needed", "admission:round-after-enough-space", format!("a victim (#{}) was examined although the loop already counted {} free for weight {}", v.data[4], v.data[3], v.data[1])));
            }
        }
        for f in accounting_violations(o) {
            out.push(Finding::new("accounting", "admission:accounting-broken", f));
        }
    })
}

fn ilv_programs(quick: bool) -> Vec<crate::harness::ilv::Program> {
    use crate::harness::ilv::Program;
    use crate::props::common::{adv, get, put, put_ttl};
    let mut v = Vec::new();
    // a (TTL, expired, accessed), b (cold), c (hot); the incoming key needs two victims' worth of space
    let mk = |name: &str, w: i64, init: Vec<Op>, incoming: Op| {
        let mut p = Program::new(name);
        p.setup = Setup { weight: w, buffer: 1, counters: 256, ..Setup::default() };
        p.init = init;
        p.threads = vec![vec![incoming], vec![Op::Tick]];
        p.world.iter_order_is_choice = true;
        p
    };
    v.push(mk("evicting-put(d,4)||{tick} sweeping a (a,c accessed; b cold)/W=6", 6, vec![put_ttl(1, 2, 1000), put(2, 2), put(3, 2), get(1), get(3), get(3), adv(3000)], put(4, 4)));
    // (map iteration order as a data choice only in the first program and in the thorough tier: it multiplies the schedules)
    for (name, init, incoming) in [
        ("evicting-put(d,5)||{tick} sweeping a (nothing accessed)/W=6", vec![put_ttl(1, 3, 1000), put(2, 1), put(3, 2), adv(3000)], put(4, 5)),
        ("evicting-put(d,3)||{tick} sweeping a and b/W=6", vec![put_ttl(1, 2, 1000), put_ttl(2, 2, 1000), put(3, 2), adv(3000)], put(4, 3)),
    ] {
        let mut p = mk(name, 6, init, incoming);
        p.world.iter_order_is_choice = !quick;
        v.push(p);
    }
    {
        // a weight update of a key the sweeper is removing; afterwards a put that fits into the empty cache
        let mut p = mk("upsert(a,w=4)||{tick} sweeping a ; then put(d,6) into the empty cache/W=6", 6, vec![put_ttl(1, 2, 1000), adv(3000)], Op::Upsert { k: 1, value: true, w: Some(4), ttl_ms: None, remove_ttl: false });
        p.post = vec![put(4, 6)];
        p.world.iter_order_is_choice = false;
        v.push(p);
    }
    {
        // the same key released by the worker (delete) and by the sweeper; afterwards a colder put that does not fit
        // beside the hot key b must be refused
        let mut p = mk("delete(a)||{tick} sweeping a ; then put(d,5) beside hot b/W=6", 6, vec![put_ttl(1, 2, 1000), put(2, 2), get(2), get(2), adv(3000)], Op::Delete { k: 1 });
        p.post = vec![put(4, 5)];
        p.world.iter_order_is_choice = false;
        v.push(p);
    }
    v
}

pub fn def(ctx: &Ctx) -> PropertyDef {
    let mut scenarios = vec![Scenario {
        name: "exh/admission-decision-table".into(),
        run: Box::new(run),
        replay: Box::new(|doc| -> ReplayOutcome {
            let case = Case::from_json(&doc["replay"]["input"]);
            let col = Collector::new();
            let (c2, k2) = (case.clone(), col.clone());
            let failures = explore::run_batch(0..1, Arc::new(move |_| check_case(&c2, &k2)));
            let mut out: Vec<(String, String, String)> = col.0.lock().unwrap().violations.values().map(|(v, _)| (v.clause.clone(), v.signature.clone(), v.detail.clone())).collect();
            for (_, kind, msg) in failures {
                out.push((kind.to_string(), format!("{}:admission", kind), msg));
            }
            Ok(out)
        }),
    }];
    for (w, capacity) in [(3i64, 8usize), (4, 8), (4, 2)] {
        let name = pipeline_spec(ctx, w, capacity).name;
        scenarios.push(seq_scenario(move |c| pipeline_spec(c, w, capacity), &name));
    }
    for p in ilv_programs(ctx.quick()) {
        let nthreads = p.threads.len();
        scenarios.push(crate::harness::ilv::program_scenario(p, ilv_oracle(), move |c| crate::harness::ilv::tier_cfg(c, nthreads)));
    }
    PropertyDef {
        id: "C06",
        technique: "exhaustive enumeration of the admission decision table on the real AdmissionPolicy (residents x weights x access-frequency profiles x incoming key), oracle evaluated per eviction round from the admission_victim events with read-back estimates; plus explicit-state BFS at CacheD level through reads -> buffers -> consumer -> sketch -> admission; plus stateless preemption-bounded model checking of the eviction loop racing the sweeper",
        rule: "exh: every case of the enumerated table; distinct_nontrivial = distinct cases in which at least one eviction round ran; seq: canonical states first reached at depth >= 2; ilv: every schedule up to the preemption bound",
        assumptions: vec![
            "estimates are read back from the sketch and used as inputs, so bloom-filter false positives and counter collisions cannot cause a false alarm",
            "any member of a tie may be chosen as victim; which residents form the sample is taken from the event, only its size, distinctness and membership are checked",
            "resident order is enumerated explicitly (it determines shard placement and iteration order in the shim map, whose per-shard order is insertion order); both the two-shard and the single-shard placement are covered",
            "cache weights 3..8, resident weights 1..3, at most 7 residents",
        ],
        scenarios,
    }
}
