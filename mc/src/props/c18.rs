//! C18 - no deadlock: every call returns under every interleaving.
//!
//! Deadlock detection is built into the runtime (no enabled task while an unfinished one exists), so every
//! scenario of every property also checks this. The dedicated family below maximises lock sharing
//! (one shard, queue 1, pool 1, sweeps, evictions and buffer hand-overs in flight) and is run twice: with
//! the reader-preferring rwlock rule and with parking_lot's writer-preferring rule, under which a recursive
//! read behind a waiting writer really deadlocks.
use super::common::*;
use super::{Ctx, PropertyDef, Scenario, COMMON_ASSUMPTIONS};
use crate::harness::ilv::*;
use crate::harness::kit::*;
use std::sync::Arc;

fn oracle() -> Oracle {
    Arc::new(|run: &Run, out: &mut Vec<Finding>| {
        // deadlocks surface as failed executions; here only the liveness probes of the epilogue are checked:
        // the worker acknowledged a put, the sweeper finished a sweep, the consumer applied a batch.
        if !run.program.has_shutdown() {
            if let Some(p) = run.calls.iter().find(|c| c.thread == PHASE_POST && matches!(c.op, Op::Put { .. })) {
                if run.status_of(PHASE_POST, p.idx).is_none() {
                    out.push(Finding::new("worker-liveness", "liveness:worker-did-not-answer-probe", format!("{} was never acknowledged", p.short())));
                }
            }
        }
    })
}

fn programs(fair: bool) -> Vec<Program> {
    let mut v = Vec::new();
    let mk = |name: &str, w: i64, init: Vec<Op>, threads: Vec<Vec<Op>>| {
        let mut p = Program::new(&format!("{}{}", name, if fair { " [writer-preferring rwlocks]" } else { "" }));
        p.setup = Setup { weight: w, buffer: 1, ..Setup::default() };
        p.world.dash_single_shard = true;
        p.world.fair_rwlocks = fair;
        p.world.iter_order_is_choice = false;
        p.init = init;
        p.threads = threads;
        // liveness probes: worker, sweeper, consumer (two hits with buffer size 1 force a hand-over)
        p.post = vec![put(4, 1), Op::TickWait, get(4), get(4)];
        p
    };
    let ups = |k: K, w: Option<i64>, ttl: Option<u64>, rm: bool| Op::Upsert { k, value: true, w, ttl_ms: ttl, remove_ttl: rm };
    let gr = |k: K| Op::Read { k, variant: ReadVariant::GetRef };
    // upsert with TTL change vs. sweep vs. reader with hand-over
    v.push(mk("upsert(a,ttl)||{clock;tick}||get_ref(a);get(a)", 100, vec![put_ttl(1, 30, 1000), put(2, 30)], vec![vec![ups(1, Some(30), Some(9000), false)], vec![adv(3000), Op::Tick], vec![gr(1), get(1)]]));
    // eviction (worker holds key_weights/weight_used/store locks) vs. upsert weight vs. delete
    v.push(mk("evicting-put(c)||upsert(a,w)||delete(b)", 4, vec![put(1, 2), put(2, 1)], vec![vec![put(3, 3)], vec![ups(1, Some(1), None, false)], vec![del(2)]]));
    // sweep evicting while the worker evicts and a reader hands a buffer over
    v.push(mk("evicting-put(c)||{tick}||get(b);get(b)", 4, vec![put_ttl(1, 2, 1000), put(2, 1), adv(3000)], vec![vec![put(3, 3)], vec![Op::Tick], vec![get(2), get(2)]]));
    // two expired TTL keys in one expiry shard: the sweeper evicts one while the worker evicts the other
    v.push(mk("evicting-put(c)||{tick} sweeping a and b (both TTL, expired)", 4, vec![put_ttl(1, 2, 1000), put_ttl(2, 1, 1000), adv(3000)], vec![vec![put(3, 3)], vec![Op::Tick]]));
    v.push(mk("evicting-put_ttl(c)||{tick} sweeping b||delete(a)", 4, vec![put_ttl(1, 2, 5000), put_ttl(2, 1, 1000), adv(3000)], vec![vec![put_ttl(3, 3, 5000)], vec![Op::Tick], vec![del(1)]]));
    // two callers move two keys' expiries between the two expiry shards in opposite directions
    v.push(mk("upsert(a, ttl 1s->2s) || upsert(b, ttl 2s->1s) || {tick}", 100, vec![put_ttl(1, 30, 1000), put_ttl(2, 30, 2000)], vec![vec![ups(1, Some(30), Some(2000), false)], vec![ups(2, Some(30), Some(1000), false)], vec![Op::Tick]]));
    // shutdown while the worker samples for an eviction
    {
        let mut p = mk("shutdown || evicting-put(c) || get(a)", 4, vec![put(1, 2), put(2, 1)], vec![vec![Op::Shutdown], vec![put(3, 3)], vec![get(1)]]);
        p.post = vec![get(1)];
        p.quiesce_sweeps = false;
        v.push(p);
    }
    // shutdown vs. everything
    {
        let mut p = mk("shutdown||upsert(a,ttl)||get(a);put(c)", 100, vec![put_ttl(1, 30, 1000)], vec![vec![Op::Shutdown], vec![ups(1, Some(30), Some(9000), false)], vec![get(1), put(3, 2)]]);
        p.post = vec![get(1)];
        p.quiesce_sweeps = false;
        v.push(p);
    }
    // TTL removal + re-put vs. sweep
    v.push(mk("upsert(a,rm-ttl);delete(a);put_ttl(a)||{clock;tick}", 100, vec![put_ttl(1, 30, 1000)], vec![vec![ups(1, Some(30), None, true), del(1), put_ttl(1, 30, 2000)], vec![adv(3000), Op::Tick]]));
    // multi-key readers through iterators vs. writers on the same shard
    // (appended: the indices above are referred to by the quick tier's selection)
    v.push(mk("multi_get_iterator([a,b])||delete(a);put(a)||upsert(b)", 100, vec![put(1, 30), put(2, 30)], vec![vec![Op::MultiRead { keys: vec![1, 2], variant: ReadVariant::MultiGetIterator }], vec![del(1), put(1, 30)], vec![ups(2, None, None, false)]]));
    // the worker's weight update / delete (key-weight shard, then the total) vs. the sweeper's release of another key
    v.push(mk("upsert(a,w)||{tick} sweeping b", 100, vec![put(1, 2), put_ttl(2, 2, 1000), adv(3000)], vec![vec![ups(1, Some(3), None, false)], vec![Op::Tick]]));
    // callers that really poll their acknowledgements while the worker completes them (status / waker locks)
    v.push(mk("put(c);await||delete(a);await", 100, vec![put(1, 2)], vec![vec![put(3, 2), Op::Await { call: 0 }], vec![del(1), Op::Await { call: 0 }]]));
    v.push(mk("put(c);poll_once;await||delete(a);poll_once;await", 100, vec![put(1, 2)], vec![vec![put(3, 2), Op::PollOnce { call: 0 }, Op::Await { call: 0 }], vec![del(1), Op::PollOnce { call: 0 }, Op::Await { call: 0 }]]));
    // eviction in a cache whose keys are in their second life (every victim order: the sample's iteration order is a choice)
    {
        let mut p = mk("second lives (TTL key deleted and put again, plain key deleted and put again), then evicting-put(c)||get(b)", 100, vec![put_ttl(1, 30, 9000), del(1), put(1, 30), put(2, 30), del(2), put_ttl(2, 30, 9000)], vec![vec![put(3, 40)], vec![get(2)]]);
        p.world.iter_order_is_choice = true;
        v.push(p);
    }
    v.push(mk("delete(a)||upsert(b,w)||{tick} sweeping c", 100, vec![put(1, 2), put(2, 2), put_ttl(3, 2, 1000), adv(3000)], vec![vec![del(1)], vec![ups(2, Some(3), None, false)], vec![Op::Tick]]));
    v
}

pub fn def(ctx: &Ctx) -> PropertyDef {
    let quick = ctx.quick();
    let workers = ctx.workers;
    let mut scenarios: Vec<Scenario> = Vec::new();
    for fair in [false, true] {
        for (pi, p) in programs(fair).into_iter().enumerate() {
            // the quick tier runs the second rwlock rule only on the programs that nest parking_lot rwlocks most
            if quick && fair && ![0usize, 1, 2, 3, 5].contains(&pi) {
                continue;
            }
            scenarios.push({
                let nthreads = p.threads.len();
                program_scenario(p, oracle(), move |c| crate::harness::ilv::tier_cfg(c, nthreads))
            });
        }
    }
    let mut assumptions = COMMON_ASSUMPTIONS.to_vec();
    assumptions.push("a deadlock is a state in which some task is unfinished and none is enabled (including the background threads that must exit at tear-down); callers never keep a get_ref guard across another call (the documented exclusion)");
    assumptions.push("both rwlock admission rules are explored: readers admitted whenever no writer holds the lock, and parking_lot's rule (readers queue behind a waiting writer)");
    PropertyDef {
        id: "C18",
        technique: "stateless preemption-bounded model checking of the real code with built-in deadlock detection; dedicated maximal-lock-sharing programs under two rwlock fairness models, followed by liveness probes of worker, sweeper and consumer",
        rule: "ilv: every schedule of each program up to the bound; distinct_nontrivial = distinct overlapping call/return histories",
        assumptions,
        scenarios,
    }
}
