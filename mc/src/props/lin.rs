//! History oracles for concurrent runs (effect intervals as defined in DESIGN §5).
use crate::cache::command::CommandStatus;
use crate::harness::ilv::{Finding, Run};
use crate::harness::kit::*;

#[derive(Clone, Debug)]
pub struct Effect {
    pub thread: usize,
    pub idx: usize,
    pub key: K,
    /// Some(v): writes v; None: hides the key (delete)
    pub value: Option<V>,
    pub start: u64,
    pub end: u64,
    /// false: the call never takes effect (rejected put, failed send)
    pub effective: bool,
    pub desc: String,
}

fn ack_seq(run: &Run, ack_id: i64) -> Option<u64> {
    run.events.iter().find(|e| e.kind == "worker_acked" && e.data.first() == Some(&ack_id)).map(|e| e.seq)
}

/// The effect interval of every write / delete call of the run.
pub fn effects(run: &Run) -> Vec<Effect> {
    let mut out = Vec::new();
    for c in run.calls.iter() {
        let (err, sent, ack_id) = match &c.res {
            Res::Write { err, sent, ack_id, .. } => (*err, sent.clone(), *ack_id),
            _ => continue,
        };
        let st = run.status_of(c.thread, c.idx);
        let key = match c.op.key() {
            Some(k) => k,
            None => continue,
        };
        let acked_at = ack_seq(run, ack_id);
        match &c.op {
            Op::Put { .. } => {
                let effective = !err && sent.is_some() && st == Some(CommandStatus::Accepted);
                out.push(Effect { thread: c.thread, idx: c.idx, key, value: c.value, start: c.inv, end: acked_at.unwrap_or(u64::MAX), effective, desc: c.short() });
            }
            Op::Upsert { value, .. } => {
                let put_path = matches!(sent.as_deref(), Some("Put") | Some("PutWithTTL"));
                if put_path {
                    let effective = !err && st == Some(CommandStatus::Accepted);
                    out.push(Effect { thread: c.thread, idx: c.idx, key, value: c.value, start: c.inv, end: acked_at.unwrap_or(u64::MAX), effective, desc: c.short() });
                } else if *value {
                    // applied on the spot: the value changed between invocation and return
                    out.push(Effect { thread: c.thread, idx: c.idx, key, value: c.value, start: c.inv, end: c.ret, effective: !err, desc: c.short() });
                }
            }
            Op::Delete { .. } => {
                // hides the key from the moment the call returns (soft delete) ...
                // ... provided the key's put had been acknowledged before the call; otherwise only once the delete is acknowledged
                let put_acked_before = run.calls.iter().any(|p| {
                    p.op.key() == Some(key)
                        && matches!(p.op, Op::Put { .. } | Op::Upsert { .. })
                        && match &p.res {
                            Res::Write { ack_id, sent: Some(_), .. } => ack_seq(run, *ack_id).map(|s| s < c.inv).unwrap_or(false),
                            _ => false,
                        }
                });
                let pending_put = run.calls.iter().any(|p| {
                    p.op.key() == Some(key)
                        && matches!(p.op, Op::Put { .. } | Op::Upsert { .. })
                        && match &p.res {
                            Res::Write { ack_id, sent: Some(_), .. } => p.inv < c.ret && ack_seq(run, *ack_id).map(|s| s > c.inv).unwrap_or(true),
                            _ => false,
                        }
                });
                let end = if put_acked_before && !pending_put { c.ret } else { acked_at.unwrap_or(u64::MAX) };
                out.push(Effect { thread: c.thread, idx: c.idx, key, value: None, start: c.inv, end, effective: !err, desc: c.short() });
            }
            _ => {}
        }
    }
    out
}

/// Every (key, value, inv, ret, description) a read call returned.
pub fn reads(run: &Run) -> Vec<(K, Option<V>, u64, u64, String)> {
    let mut out = Vec::new();
    for c in run.calls.iter() {
        match (&c.op, &c.res) {
            (Op::Read { k, .. }, Res::Read(v)) => out.push((*k, *v, c.inv, c.ret, c.short())),
            (Op::MultiRead { keys, .. }, Res::MultiRead(vs)) => {
                for (i, (k, v)) in keys.iter().zip(vs.iter()).enumerate() {
                    // a lazy iterator's elements are separate reads with their own intervals
                    let (a, b) = c.elems.get(i).copied().unwrap_or((c.inv, c.ret));
                    out.push((*k, *v, a, b, if c.elems.is_empty() { c.short() } else { format!("{} element #{} [{}..{}]", c.short(), i, a, b) }));
                }
            }
            (Op::ReadAll { keys }, Res::MultiRead(vs)) => {
                for (i, v) in vs.iter().enumerate() {
                    out.push((keys[i % keys.len()], *v, c.inv, c.ret, c.short()));
                }
            }
            _ => {}
        }
    }
    out
}

/// C02's statement, per read that returned a value.
pub fn check_reads(run: &Run, out: &mut Vec<Finding>) {
    let effs = effects(run);
    for (k, got, inv, ret, desc) in reads(run) {
        let v = match got {
            Some(v) => v,
            None => continue, // a cache may report absent at any time
        };
        if token_key(v) != k {
            out.push(Finding::new("foreign-value", "read:foreign-value", format!("{} returned {} which was written to key {}", desc, v, token_key(v))));
            continue;
        }
        let w = match effs.iter().find(|e| e.key == k && e.value == Some(v)) {
            Some(w) => w,
            None => {
                out.push(Finding::new("unwritten-value", "read:unwritten-value", format!("{} returned {} which no call wrote", desc, v)));
                continue;
            }
        };
        if !w.effective {
            out.push(Finding::new("value-of-rejected-write", "read:value-of-rejected-write", format!("{} returned the value of {} which was never accepted", desc, w.desc)));
            continue;
        }
        if w.start > ret {
            out.push(Finding::new("value-from-the-future", "read:value-from-the-future", format!("{} returned the value of {} which began after the read ended", desc, w.desc)));
            continue;
        }
        for x in effs.iter().filter(|x| x.key == k && x.effective && !(x.thread == w.thread && x.idx == w.idx)) {
            if x.start > w.end && x.end < inv {
                let (clause, sig) = if x.value.is_none() { ("deleted-value-served", "read:deleted-value") } else { ("superseded-value-served", "read:superseded-value") };
                out.push(Finding::new(clause, sig, format!("{} returned the value of {} although {} began after that write had taken effect and completed before the read began", desc, w.desc, x.desc)));
                break;
            }
        }
    }
}
