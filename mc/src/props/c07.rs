//! C07 - put never overwrites; 'key already exists' only for keys that can be read.
//!
//! seq: key 1 is brought into every life-cycle state the sequential API can reach (never written, live,
//! live with TTL, deleted and acknowledged, evicted, swept, expired but not yet swept), then each of the
//! four put variants is applied. The oracle reads the state snapshot before and after the put.
use super::common::*;
use super::{Ctx, PropertyDef, Scenario, COMMON_ASSUMPTIONS};
use crate::cache::command::{CommandStatus, RejectionReason};
use crate::harness::kit::*;
use crate::harness::ilv::{program_scenario, IlvCfg, Oracle, Program, Run};
use crate::harness::seq::*;
use std::sync::Arc;

/// ilv: several puts of one key in flight at once. Whatever the interleaving, at most one of them is accepted
/// while the key stays readable, and an accepted put's value / weight / expiry are not overwritten by a later one.
fn ilv_oracle() -> Oracle {
    Arc::new(|run: &Run, out: &mut Vec<crate::harness::ilv::Finding>| {
        use crate::harness::ilv::Finding;
        let k: K = 1;
        let puts: Vec<&Call> = run.calls.iter().filter(|c| matches!(c.op, Op::Put { .. }) && c.op.key() == Some(k) && c.thread < PHASE_INIT).collect();
        let deleted = run.calls.iter().any(|c| matches!(c.op, Op::Delete { .. }) && c.op.key() == Some(k));
        let accepted: Vec<&&Call> = puts.iter().filter(|c| run.status_of(c.thread, c.idx) == Some(CommandStatus::Accepted)).collect();
        if !deleted {
            let pre = run.obs_init.entry(k).is_some() as usize;
            if accepted.len() + pre > 1 {
                out.push(Finding::new("second-put-accepted", "put:two-puts-of-one-key-accepted", format!("{} puts of key {} were accepted although the key was never deleted: {:?}", accepted.len() + pre, k, accepted.iter().map(|c| c.short()).collect::<Vec<_>>())));
            }
            for c in puts.iter().filter(|c| run.status_of(c.thread, c.idx) != Some(CommandStatus::Accepted)) {
                let st = run.status_of(c.thread, c.idx);
                if st != Some(CommandStatus::Rejected(RejectionReason::KeyAlreadyExists)) {
                    out.push(Finding::new("loser-status", "put:concurrent-put-wrong-status", format!("{} ended with {:?}", c.short(), st.map(|s| status_short(&s)))));
                }
            }
            // the entry is the one written by the accepted put (or the prologue), untouched by the rejected ones
            if let Some(e) = run.obs_end.entry(k) {
                let winner = accepted.first().map(|c| c.value).unwrap_or_else(|| run.obs_init.entry(k).map(|x| x.1));
                if Some(e.1) != winner {
                    out.push(Finding::new("put-overwrote", "put:overwrote-readable-key", format!("key {} ends with value {} but the accepted put wrote {:?}", k, e.1, winner)));
                }
                if let Some(wc) = accepted.first() {
                    if let Op::Put { w: Some(w), ttl_ms, .. } = &wc.op {
                        if run.obs_end.weight_of_id(e.2) != Some(*w) || e.3.is_some() != ttl_ms.is_some() {
                            out.push(Finding::new("put-overwrote", "put:overwrote-weight-or-expiry", format!("key {} ends with weight {:?} / expiry {:?} but the accepted put was {}", k, run.obs_end.weight_of_id(e.2), e.3, wc.short())));
                        }
                    }
                }
            }
        }
        for f in accounting_violations(&run.obs_end) {
            out.push(Finding::new("accounting", "put:accounting-broken", f));
        }
        // epilogue (everything acknowledged, nothing in flight): a probed put = get(k) immediately followed by put(k).
        // Readable => rejected, entry untouched; reads as absent => never KeyAlreadyExists
        for c in run.calls.iter().filter(|c| c.thread == PHASE_POST) {
            if let (Op::ProbedPut { k: pk, .. }, Res::ProbedWrite { read, .. }) = (&c.op, &c.res) {
                let st = run.status_of(PHASE_POST, c.idx);
                if read.is_some() {
                    if st != Some(CommandStatus::Rejected(RejectionReason::KeyAlreadyExists)) {
                        out.push(Finding::new("put-of-readable-key-not-rejected", "put:readable-not-rejected", format!("{} on a readable key ended with {:?}", c.short(), st.map(|s| status_short(&s)))));
                    }
                } else if st == Some(CommandStatus::Rejected(RejectionReason::KeyAlreadyExists)) {
                    let state = match run.obs_end.entry(*pk) {
                        None => "absent",
                        Some(e) if e.4 => "soft-deleted-with-no-delete-pending",
                        Some(e) if e.3.map(|x| c.now_ms_ret <= x).unwrap_or(true) => "unexpired",
                        Some(_) => "expired-unswept",
                    };
                    out.push(Finding::new("KeyAlreadyExists-for-unreadable-key", format!("put:KeyAlreadyExists-for-{}-key", state), format!("{} was rejected with KeyAlreadyExists although the key reads as absent and no command is in flight (state: {})", c.short(), state)));
                }
            }
        }
    })
}

fn ilv_programs() -> Vec<Program> {
    let mut v = Vec::new();
    let mk = |name: &str, init: Vec<Op>, threads: Vec<Vec<Op>>| {
        let mut p = Program::new(name);
        p.setup = Setup { weight: 100, queue: 2, ..Setup::default() };
        p.init = init;
        p.threads = threads;
        p
    };
    let variants = [("put_with_weight", None), ("put_with_weight_and_ttl", Some(5000u64))];
    for (na, ta) in variants {
        for (nb, tb) in variants {
            v.push(mk(&format!("{}(k)||{}(k)", na, nb), vec![], vec![vec![Op::Put { k: 1, w: Some(2), ttl_ms: ta }], vec![Op::Put { k: 1, w: Some(3), ttl_ms: tb }]]));
        }
    }
    v.push(mk("put_with_ttl(k);put(k)-one-thread", vec![], vec![vec![Op::Put { k: 1, w: None, ttl_ms: Some(5000) }, Op::Put { k: 1, w: None, ttl_ms: None }]]));
    v.push(mk("put(k);put_with_ttl(k)-one-thread", vec![], vec![vec![Op::Put { k: 1, w: Some(2), ttl_ms: None }, Op::Put { k: 1, w: Some(3), ttl_ms: Some(5000) }]]));
    // the same on a full cache: admitting the second put would have to evict the key's own entry
    for (na, ta) in variants {
        let mut p = mk(&format!("{}(k,2)||put_with_weight(k,3) /W=3 (full cache)", na), vec![], vec![vec![Op::Put { k: 1, w: Some(2), ttl_ms: ta }], vec![Op::Put { k: 1, w: Some(3), ttl_ms: None }]]);
        p.setup.weight = 3;
        v.push(p);
    }
    {
        let mut p = mk("put(k,2);put_ttl(k,3) unawaited /W=3 (full cache)", vec![], vec![vec![Op::Put { k: 1, w: Some(2), ttl_ms: None }, Op::Put { k: 1, w: Some(3), ttl_ms: Some(5000) }]]);
        p.setup.weight = 3;
        v.push(p);
    }
    // a put of another key queued between the two puts of k
    v.push(mk("put(k);put(other);put(k) unawaited", vec![], vec![vec![Op::Put { k: 1, w: Some(2), ttl_ms: None }, Op::Put { k: 2, w: Some(2), ttl_ms: None }, Op::Put { k: 1, w: Some(3), ttl_ms: None }]]));
    v.push(mk("put_ttl(k);put(other) || put_ttl(k)", vec![], vec![vec![Op::Put { k: 1, w: Some(2), ttl_ms: Some(5000) }, Op::Put { k: 2, w: Some(2), ttl_ms: None }], vec![Op::Put { k: 1, w: Some(3), ttl_ms: Some(5000) }]]));
    // a delete racing a put of the same key, then (all acknowledged) a probed put
    for (name, init_k, racing) in [
        ("delete(k)||put(k) ; then probed put(k)", Op::Put { k: 1, w: Some(2), ttl_ms: None }, Op::Put { k: 1, w: Some(3), ttl_ms: None }),
        ("delete(k)||put_ttl(k) ; then probed put(k) /ttl", Op::Put { k: 1, w: Some(2), ttl_ms: Some(5000) }, Op::Put { k: 1, w: Some(3), ttl_ms: Some(5000) }),
    ] {
        let mut p = mk(name, vec![init_k], vec![vec![Op::Delete { k: 1 }], vec![racing]]);
        p.post = vec![Op::ProbedPut { k: 1, w: Some(4), ttl_ms: None }];
        v.push(p);
    }
    v.push(mk("put_ttl(k)||put(k) on a live key", vec![put(1, 2)], vec![vec![Op::Put { k: 1, w: Some(3), ttl_ms: Some(5000) }], vec![Op::Put { k: 1, w: Some(4), ttl_ms: None }]]));
    v
}

fn oracle() -> SeqOracle {
    Arc::new(|run: &SeqRun, out: &mut Vec<Finding>| {
        let i = run.last();
        let c = &run.calls[i];
        let before = run.before();
        let after = run.after();
        // bind the readability model to the code: in every quiescent state all read variants return what the snapshot says
        if let Op::ReadAll { .. } = &c.op {
            for (variant, k, got) in read_all_results(c) {
                let (exp, specified) = model_read(before, k);
                if specified && got != exp {
                    out.push(Finding::new("read-disagrees-with-state", "read:disagrees-with-snapshot", format!("{:?}({}) returned {:?} but the stored entry says {:?}", variant, k, got, exp)));
                }
            }
            return;
        }
        let (k, w, ttl) = match &c.op {
            Op::Put { k, w, ttl_ms } | Op::ProbedPut { k, w, ttl_ms } => (*k, *w, *ttl_ms),
            _ => return,
        };
        let st = run.statuses[i];
        let (mut readable, specified) = model_read(before, k);
        // a probed put carries what a real read returned right before the put: that *is* "currently readable"
        // (it also settles the instant clock == expiry, which the snapshot model leaves open)
        if let Res::ProbedWrite { read, .. } = &c.res {
            if specified && *read != readable {
                out.push(Finding::new("read-disagrees-with-state", "read:disagrees-with-snapshot", format!("get({}) returned {:?} but the stored entry says {:?}", k, read, readable)));
            }
            readable = *read;
        } else if !specified {
            return;
        }
        let variant = match (w, ttl) {
            (None, None) => "put",
            (Some(_), None) => "put_with_weight",
            (None, Some(_)) => "put_with_ttl",
            (Some(_), Some(_)) => "put_with_weight_and_ttl",
        };
        if readable.is_some() {
            if st != Some(CommandStatus::Rejected(RejectionReason::KeyAlreadyExists)) {
                out.push(Finding::new("put-of-readable-key-not-rejected", "put:readable-not-rejected", format!("{}({}) on a readable key was acknowledged {:?} instead of Rejected(KeyAlreadyExists)", variant, k, st.map(|s| status_short(&s)))));
            }
            let (b, a) = (before.entry(k), after.entry(k));
            if b.map(|e| (e.1, e.2, e.3)) != a.map(|e| (e.1, e.2, e.3)) {
                out.push(Finding::new("put-overwrote", "put:overwrote-readable-key", format!("{}({}) changed the stored entry of a readable key: {:?} -> {:?}", variant, k, b, a)));
            }
            if let Some(e) = b {
                if before.weight_of_id(e.2) != after.weight_of_id(e.2) {
                    out.push(Finding::new("put-changed-weight", "put:changed-weight-of-readable-key", format!("{}({}) changed the charged weight of a readable key: {:?} -> {:?}", variant, k, before.weight_of_id(e.2), after.weight_of_id(e.2))));
                }
            }
        } else {
            let state = match before.entry(k) {
                None => "absent",
                Some(e) if e.4 => "soft-deleted",
                // the recorded finding needs a time-to-live that has elapsed (clock strictly past the expiry): an entry
                // that reads absent no later than its expiry instant is a different defect
                Some(e) if e.3.map(|x| before.now_ms <= x).unwrap_or(true) => "unexpired",
                Some(_) => {
                    if passed_over_by_its_sweep(run, i, k) {
                        "expired-and-passed-over-by-its-sweep"
                    } else {
                        "expired-unswept"
                    }
                }
            };
            if st == Some(CommandStatus::Rejected(RejectionReason::KeyAlreadyExists)) {
                out.push(Finding::new(
                    "KeyAlreadyExists-for-unreadable-key",
                    format!("put:KeyAlreadyExists-for-{}-key", state),
                    format!("{}({}) was rejected with KeyAlreadyExists although every read reports the key absent (state: {}, t={})", variant, k, state, before.now_ms - T0_MS),
                ));
            } else {
                // admission alone decides: with room to spare the put must be accepted
                let weight = w.unwrap_or(match run.setup.weight_fn {
                    WeightFn::Const { c, ttl_extra } => c + if ttl.is_some() { ttl_extra } else { 0 },
                    WeightFn::ByKey { offset } => k as i64 + offset,
                });
                let free = before.max_weight - before.weight_used;
                if weight <= free && st != Some(CommandStatus::Accepted) {
                    out.push(Finding::new("absent-key-put-not-accepted", "put:absent-key-with-room-not-accepted", format!("{}({}, weight {}) of an absent key with {} free was acknowledged {:?}", variant, k, weight, free, st.map(|s| status_short(&s)))));
                }
                if st == Some(CommandStatus::Accepted) && model_read(after, k).0 != c.value {
                    out.push(Finding::new("accepted-put-not-readable", "put:accepted-not-readable", format!("{}({}) was accepted but the key does not read back its value", variant, k)));
                }
            }
        }
    })
}

fn spec(ctx: &Ctx, shards: usize, fn_weight: i64) -> SeqSpec {
    let quick = ctx.quick();
    let mut alphabet: Vec<Op> = vec![
        Op::Put { k: 1, w: None, ttl_ms: None },
        Op::Put { k: 1, w: Some(2), ttl_ms: None },
        Op::Put { k: 1, w: None, ttl_ms: Some(1500) },
        Op::Put { k: 1, w: Some(3), ttl_ms: Some(1500) },
        // expiry exactly reachable by the clock steps (1000 + 1000, or 2000): the boundary instant
        Op::Put { k: 1, w: Some(2), ttl_ms: Some(2000) },
        // a time-to-live of zero: the key expires at the instant it is stored
        Op::Put { k: 1, w: Some(2), ttl_ms: Some(0) },
        // heavier than the whole cache (W = 5): on a readable key the answer is still "key already exists"
        Op::Put { k: 1, w: Some(6), ttl_ms: None },
        Op::ProbedPut { k: 1, w: Some(3), ttl_ms: None },
        Op::ProbedPut { k: 1, w: None, ttl_ms: Some(1500) },
        Op::Delete { k: 1 },
        // a TTL change that keeps the expiry in its shard (2 s -> 2.5 s) / moves it: the sweep must still find the key
        Op::Upsert { k: 1, value: true, w: None, ttl_ms: Some(2500), remove_ttl: false },
        // a TTL change that shortens (1.5 s / 2 s -> 0.5 s, into the other shard): the sweep of the new expiry must find the key
        Op::Upsert { k: 1, value: true, w: None, ttl_ms: Some(500), remove_ttl: false },
        // heavy enough to need key 1's space (W = 5)
        Op::Put { k: 2, w: Some(4), ttl_ms: None },
        Op::Delete { k: 2 },
        Op::Advance { ms: 1000 },
        Op::Advance { ms: 2000 },
        Op::TickWait,
        Op::ReadAll { keys: vec![1, 2] },
    ];
    if !quick {
        alphabet.push(Op::Put { k: 2, w: Some(1), ttl_ms: Some(1000) });
        alphabet.push(Op::Upsert { k: 1, value: true, w: None, ttl_ms: Some(1500), remove_ttl: false });
        alphabet.push(Op::Upsert { k: 1, value: true, w: None, ttl_ms: None, remove_ttl: true });
    }
    SeqSpec {
        // fn_weight = what the configured weight function gives every pair; 9 is heavier than the whole cache (W = 5), so
        // puts without an explicit weight are "too heavy" - unless the key is readable, then they are "already exists"
        name: format!("seq/put-in-every-life-cycle-state/shards{}{}", shards, if fn_weight == 2 { String::new() } else { format!("/weight-fn={}", fn_weight) }),
        setup: Setup { weight: 5, shards, buffer: 64, weight_fn: WeightFn::Const { c: fn_weight, ttl_extra: 0 }, ..Setup::default() },
        world: Default::default(),
        prefix: vec![],
        alphabet,
        depth: if quick { 7 } else { 8 },
        allow: None,
        oracle: oracle(),
        keys: vec![1, 2],
        canon_sketch: false,
        // the classification of an expired entry depends on the history (did a sweep of its shard pass it over?):
        // histories that differ in it are not merged
        ghost_key: Some(passed_over_key(vec![1, 2])),
        max_states: 2_000_000,
        time_cap_s: if quick { 25.0 } else { 600.0 },
    }
}

/// A second life for keys of a large generation that expired together: the history starts after `n` puts with the same
/// time-to-live (all due at one visit of one expiry shard); after the sweep every one of them takes a put again.
fn many_keys_spec(ctx: &Ctx, n: u64) -> SeqSpec {
    let quick = ctx.quick();
    let prefix: Vec<Op> = (1..=n).map(|k| Op::Put { k, w: Some(1), ttl_ms: Some(1000) }).collect();
    SeqSpec {
        name: format!("seq/put-after-a-large-generation-expired/n={}", n),
        setup: Setup { weight: 1000, shards: 2, buffer: 64, weight_fn: WeightFn::Const { c: 2, ttl_extra: 0 }, ..Setup::default() },
        world: Default::default(),
        prefix,
        alphabet: vec![
            Op::Advance { ms: 1000 },
            Op::Advance { ms: 2000 },
            Op::TickWait,
            Op::ProbedPut { k: 1, w: Some(1), ttl_ms: None },
            Op::ProbedPut { k: n, w: Some(1), ttl_ms: Some(1000) },
            Op::ProbedPut { k: n / 2, w: None, ttl_ms: None },
            Op::ReadAll { keys: vec![1, n] },
        ],
        depth: if quick { 5 } else { 7 },
        allow: None,
        oracle: oracle(),
        keys: (1..=n).collect(),
        canon_sketch: false,
        ghost_key: Some(passed_over_key(vec![1, n / 2, n])),
        max_states: 2_000_000,
        time_cap_s: if quick { 10.0 } else { 600.0 },
    }
}

pub fn def(ctx: &Ctx) -> PropertyDef {
    let mut scenarios: Vec<Scenario> = Vec::new();
    scenarios.push(seq_scenario(|c| many_keys_spec(c, 70), "seq/put-after-a-large-generation-expired/n=70"));
    for (shards, fn_weight) in [(2usize, 2i64), (4, 2), (2, 9)] {
        let name = spec(ctx, shards, fn_weight).name;
        scenarios.push(seq_scenario(move |c| spec(c, shards, fn_weight), &name));
    }
    let quick = ctx.quick();
    let workers = ctx.workers;
    for p in ilv_programs() {
        scenarios.push({
                let nthreads = p.threads.len();
                program_scenario(p, ilv_oracle(), move |c| crate::harness::ilv::tier_cfg(c, nthreads))
            });
    }
    let mut assumptions = COMMON_ASSUMPTIONS.to_vec();
    assumptions.push("readability before a put is taken from the state snapshot (entry present, not soft-deleted, clock not past its expiry); the same BFS checks in every state that all seven read variants return exactly that");
    PropertyDef {
        id: "C07",
        technique: "explicit-state model checking of the real code: breadth-first search over operation sequences with canonical-state deduplication (fresh cache per transition, quiescence after every step); plus stateless preemption-bounded model checking of several puts of one key in flight at once",
        rule: "seq: all histories over the alphabet up to the depth (distinct_nontrivial = canonical states first reached at depth >= 2); ilv: every schedule up to the bound",
        assumptions,
        scenarios,
    }
}
