//! C04 - delete hides the key immediately and releases it completely.
use super::common::*;
use super::lin;
use super::{Ctx, PropertyDef, Scenario, COMMON_ASSUMPTIONS};
use crate::cache::command::{CommandStatus, RejectionReason};
use crate::harness::ilv::*;
use crate::harness::kit::*;
use crate::harness::seq::{seq_scenario, SeqOracle, SeqRun, SeqSpec};
use std::sync::Arc;

/// ilv oracle. Key 1 was put and acknowledged in the prologue; thread 0 deletes it.
fn oracle(expect_gone: bool, reput: bool) -> Oracle {
    Arc::new(move |run: &Run, out: &mut Vec<Finding>| {
        // (a)+(b): no read invoked after a delete of k returned may return a value written before that delete began
        lin::check_reads(run, out);
        let deletes: Vec<&Call> = run.calls.iter().filter(|c| matches!(c.op, Op::Delete { .. }) && c.thread < PHASE_INIT).collect();
        for d in &deletes {
            let k = d.op.key().unwrap();
            for (rk, got, inv, _ret, desc) in lin::reads(run) {
                if rk != k || inv < d.ret {
                    continue;
                }
                if let Some(v) = got {
                    // which write produced v? it must not have begun before the delete was called
                    let writer = run.calls.iter().find(|c| c.value == Some(v));
                    if let Some(w) = writer {
                        if w.ret < d.inv || (w.thread == PHASE_INIT) {
                            out.push(Finding::new("read-after-delete-returned-value", "delete:value-visible-after-delete-returned", format!("{} (invoked after {} had returned) returned the deleted value {}", desc, d.short(), v)));
                        }
                    }
                }
            }
        }
        // (c') the moment the acknowledgement completes as accepted the weight is no longer counted: the deleter awaits
        // and reads the total at once (no other writer in these programs)
        for d in &deletes {
            if let (Some(aw), Some(tw)) = (run.call(d.thread, d.idx + 1), run.call(d.thread, d.idx + 2)) {
                if let (Op::Await { .. }, Op::TotalWeight, Res::Weight(w)) = (&aw.op, &tw.op, &tw.res) {
                    if run.status_of(d.thread, d.idx) == Some(CommandStatus::Accepted) {
                        let k = d.op.key().unwrap();
                        let released = run.obs_init.entry(k).and_then(|e| run.obs_init.weight_of_id(e.2)).unwrap_or(0);
                        if *w != run.obs_init.weight_used - released {
                            out.push(Finding::new("deleted-key-still-charged", "delete:weight-still-counted-when-ack-completes", format!("{} was awaited (Accepted) but total_weight_used() read right afterwards is {} (before: {}, the key weighs {})", d.short(), w, run.obs_init.weight_used, released)));
                        }
                    }
                }
            }
        }
        if !run.program.has_shutdown() {
            // (c) once acknowledged as accepted: gone, weight released, and the key can be put again
            for d in &deletes {
                let k = d.op.key().unwrap();
                let st = run.status_of(d.thread, d.idx);
                let later_write = run.calls.iter().any(|c| c.op.key() == Some(k) && matches!(c.op, Op::Put { .. } | Op::Upsert { .. }) && c.thread < PHASE_INIT && c.inv > d.inv)
                    || run.calls.iter().any(|c| c.op.key() == Some(k) && matches!(c.op, Op::Put { .. } | Op::Upsert { .. }) && c.thread < PHASE_INIT && c.thread != d.thread);
                if expect_gone && !later_write {
                    if st == Some(CommandStatus::Accepted) || st == Some(CommandStatus::Rejected(RejectionReason::KeyDoesNotExist)) {
                        if run.obs_end.entry(k).is_some() {
                            out.push(Finding::new("deleted-key-still-held", "delete:key-still-held-after-ack", format!("{} was acknowledged {} but the store still holds key {}", d.short(), status_short(&st.unwrap()), k)));
                        }
                        if run.obs_end.weights.iter().any(|w| w.1 == k) {
                            out.push(Finding::new("deleted-key-still-charged", "delete:weight-still-charged-after-ack", format!("{} was acknowledged but weight is still charged for key {}", d.short(), k)));
                        }
                    } else {
                        out.push(Finding::new("delete-status", "delete:unexpected-status", format!("{} ended with {:?}", d.short(), st.map(|s| status_short(&s)))));
                    }
                }
            }
            for f in accounting_violations(&run.obs_end) {
                out.push(Finding::new("accounting", "delete:accounting-broken", f));
            }
            // exactly one remover: the delete command or the sweeper, never both, never neither
            if expect_gone {
                let deleted = run.obs_end.stats[KEYS_DELETED] - run.obs_init.stats[KEYS_DELETED];
                let removed_keys = run.obs_init.store.len() as i64 + (run.obs_end.stats[KEYS_ADDED] - run.obs_init.stats[KEYS_ADDED]) as i64 - run.obs_end.store.len() as i64;
                if deleted as i64 != removed_keys {
                    out.push(Finding::new("keys-deleted-count", "delete:keys-deleted-count", format!("{} keys left the store but KeysDeleted moved by {}", removed_keys, deleted)));
                }
            }
            if reput {
                // the probe puts key 1 again and reads it: whenever the key reads as absent at the end of the
                // window (deleted, or never re-put) the put must be accepted and readable
                let p = run.calls.iter().find(|c| c.thread == PHASE_POST && matches!(c.op, Op::Put { .. }));
                let r = run.calls.iter().find(|c| c.thread == PHASE_POST && matches!(c.op, Op::Read { .. }));
                let readable_at_end = model_read(&run.obs_end, 1).0.is_some();
                if let (Some(p), Some(r)) = (p, r) {
                    let st = run.status_of(PHASE_POST, p.idx);
                    if !readable_at_end {
                        if st != Some(CommandStatus::Accepted) {
                            out.push(Finding::new("reput-after-delete-refused", "delete:reput-refused", format!("after the delete was acknowledged the key reads as absent, but {} ended with {:?}", p.short(), st.map(|s| status_short(&s)))));
                        } else if r.res != Res::Read(p.value) {
                            out.push(Finding::new("reput-after-delete-unreadable", "delete:reput-unreadable", format!("after the delete, {} was accepted but {} returned {:?}", p.short(), r.short(), r.res)));
                        }
                    }
                }
            }
        }
    })
}

fn programs() -> Vec<(Program, bool, bool)> {
    let mut v = Vec::new();
    let mk = |name: &str, init: Vec<Op>, threads: Vec<Vec<Op>>, post: Vec<Op>| {
        let mut p = Program::new(name);
        p.setup = Setup { weight: 10, ..Setup::default() };
        p.init = init;
        p.threads = threads;
        p.post = post;
        p
    };
    let reput = vec![put(1, 3), get(1)];
    v.push((mk("delete(k);get(k)||get(k)x2", vec![put(1, 2)], vec![vec![del(1), get(1)], vec![get(1), get(1)]], reput.clone()), true, true));
    v.push((mk("delete(k);get_ref(k)||multi_get(k)x2/ttl", vec![put_ttl(1, 2, 5000)], vec![vec![del(1), Op::Read { k: 1, variant: ReadVariant::GetRef }], vec![Op::Read { k: 1, variant: ReadVariant::MultiGet }, Op::Read { k: 1, variant: ReadVariant::MultiGet }]], reput.clone()), true, true));
    v.push((mk("delete(k);get(k)||{clock;tick}/ttl-expires", vec![put_ttl(1, 2, 1000)], vec![vec![del(1), get(1)], vec![adv(3000), Op::Tick]], reput.clone()), true, true));
    v.push((mk("delete(k);put(k);delete(k)-unawaited", vec![put(1, 2)], vec![vec![del(1), put(1, 3), del(1)]], vec![get(1)]), false, false));
    v.push((mk("delete(k)||delete(k)||get(k)", vec![put(1, 2)], vec![vec![del(1)], vec![del(1)], vec![get(1)]], reput.clone()), true, true));
    v.push((mk("delete(k)||put(k)", vec![put(1, 2)], vec![vec![del(1)], vec![put(1, 3)]], reput.clone()), false, true));
    v.push((mk("delete(k)||put(k);get(k)/ttl", vec![put_ttl(1, 2, 5000)], vec![vec![del(1)], vec![put(1, 3), get(1)]], reput.clone()), false, true));
    // the key has expired but has not been swept: readers cannot see it, the delete must still mark it, or a
    // TTL-only upsert that re-arms the expiry brings the deleted value back before the Delete command runs
    let ups_ttl = |k: K, ttl: u64| Op::Upsert { k, value: false, w: None, ttl_ms: Some(ttl), remove_ttl: false };
    let mut p = mk("expired-unswept: delete(k);upsert(k,ttl);get(k)", vec![put_ttl(1, 2, 1000), adv(3000)], vec![vec![del(1), ups_ttl(1, 5000), get(1)]], vec![]);
    p.tolerate_value_missing = true;
    v.push((p, false, false));
    let mut p = mk("expired-unswept: delete(k);get(k)||upsert(k,ttl);get(k)", vec![put_ttl(1, 2, 1000), adv(3000)], vec![vec![del(1), get(1)], vec![ups_ttl(1, 5000), get(1)]], vec![]);
    p.tolerate_value_missing = true;
    v.push((p, false, false));
    let mut p = mk("soft-deleted: delete(k);upsert(k,ttl);get_ref(k)", vec![put_ttl(1, 2, 5000)], vec![vec![del(1), ups_ttl(1, 9000), Op::Read { k: 1, variant: ReadVariant::GetRef }]], vec![]);
    p.tolerate_value_missing = true;
    v.push((p, false, false));
    v.push((mk("delete(k)||{tick} sweeping another expired key", vec![put(1, 2), put_ttl(2, 3, 1000), adv(3000)], vec![vec![del(1)], vec![Op::Tick]], reput.clone()), true, true));
    // a lazy iterator over the key being deleted: every element fetched after delete() returned is a read of its own
    v.push((mk("delete(k)||multi_get_iterator([k,k,k])", vec![put(1, 2)], vec![vec![del(1)], vec![Op::MultiRead { keys: vec![1, 1, 1], variant: ReadVariant::MultiGetIterator }]], reput.clone()), true, true));
    v.push((mk("delete(k);await;total_weight", vec![put(1, 2), put(2, 3)], vec![vec![del(1), Op::Await { call: 0 }, Op::TotalWeight]], vec![]), true, false));
    v.push((mk("delete(k);await;total_weight /ttl", vec![put_ttl(1, 2, 5000), put(2, 3)], vec![vec![del(1), Op::Await { call: 0 }, Op::TotalWeight]], vec![]), true, false));
    v.push((mk("delete(k);await;put(k);get(k)||get(k)", vec![put(1, 2)], vec![vec![del(1), Op::Await { call: 0 }, put(1, 3), Op::Await { call: 2 }, get(1)], vec![get(1)]], vec![]), false, false));
    v
}

fn seq_oracle() -> SeqOracle {
    Arc::new(|run: &SeqRun, out: &mut Vec<crate::harness::seq::Finding>| {
        use crate::harness::seq::Finding;
        let i = run.last();
        let c = &run.calls[i];
        // every step is followed by quiescence: no Delete command is pending, so nothing may be left soft-deleted
        // (a soft-deleted entry that nobody is going to remove reads as absent, cannot be put again and answers a
        // delete as if it were held)
        for e in run.after().store.iter().filter(|e| e.4) {
            if run.before().entry(e.0).map_or(true, |b| !b.4) {
                out.push(Finding::new("soft-deleted-entry-left-behind", "delete:soft-deleted-entry-at-quiescence", format!("after {} the store holds key {} soft-deleted although no delete is pending", c.op.short(), e.0)));
            }
        }
        let k = match &c.op {
            Op::Delete { k } => *k,
            _ => return,
        };
        let (b, a) = (run.before(), run.after());
        let st = run.statuses[i];
        match b.entry(k) {
            None => {
                if st != Some(CommandStatus::Rejected(RejectionReason::KeyDoesNotExist)) {
                    out.push(Finding::new("delete-of-absent-key", "delete:absent-key-not-rejected", format!("delete({}) of a key the cache does not hold ended with {:?}", k, st.map(|s| status_short(&s)))));
                }
                let mut a2 = a.clone();
                a2.stats = b.stats;
                a2.hit_ratio = b.hit_ratio;
                if a2 != *b {
                    out.push(Finding::new("delete-of-absent-key-changed-state", "delete:absent-key-changed-state", format!("delete({}) of an absent key changed the cache: {} -> {}", k, b.brief(), a.brief())));
                }
            }
            Some(e) => {
                // nothing but the deleted key goes: every other key keeps its entry, its charge and its place in the expiry index
                for o in b.store.iter().filter(|o| o.0 != k) {
                    let idx = |s: &Obs| { let mut v: Vec<(usize, u64)> = s.ttl.iter().filter(|t| t.1 == o.2).map(|t| (t.0, t.2)).collect(); v.sort(); v };
                    if a.entry(o.0) != Some(o) || a.weight_of_id(o.2) != b.weight_of_id(o.2) || idx(a) != idx(b) {
                        out.push(Finding::new("delete-touched-another-key", "delete:another-key-changed", format!("delete({}) changed key {}: entry {:?} -> {:?}, weight {:?} -> {:?}, expiry index {:?} -> {:?}", k, o.0, o, a.entry(o.0), b.weight_of_id(o.2), a.weight_of_id(o.2), idx(b), idx(a))));
                    }
                }
                if st != Some(CommandStatus::Accepted) {
                    out.push(Finding::new("delete-of-held-key", "delete:held-key-not-accepted", format!("delete({}) of a held key ended with {:?}", k, st.map(|s| status_short(&s)))));
                }
                if a.entry(k).is_some() || a.weights.iter().any(|w| w.0 == e.2) || a.ttl.iter().any(|t| t.1 == e.2) {
                    out.push(Finding::new("delete-left-residue", "delete:residue", format!("after delete({}) was acknowledged the cache still holds something of id #{}: {}", k, e.2, a.brief())));
                }
                // the weight the key was accepted with (the alphabet has explicit weights and no weight-changing upserts):
                // that much must be given back whatever the weight table says about the id by now
                let put_weight = (0..i).rev().find_map(|j| match (&run.calls[j].op, run.statuses[j]) {
                    (Op::Put { k: pk, w: Some(w), .. }, Some(CommandStatus::Accepted)) if *pk == k => Some(*w),
                    _ => None,
                });
                let w = put_weight.unwrap_or_else(|| b.weight_of_id(e.2).unwrap_or(0));
                if a.weight_used != b.weight_used - w {
                    out.push(Finding::new("delete-weight", "delete:weight-not-released", format!("delete({}) of weight {} moved the total from {} to {}", k, w, b.weight_used, a.weight_used)));
                }
            }
        }
    })
}

fn seq_spec(ctx: &Ctx, colliding: bool) -> SeqSpec {
    SeqSpec {
        // colliding: a user-supplied key hash under which every key has the same hash value
        name: format!("seq/delete-in-every-life-cycle-state{}", if colliding { "/all-keys-one-hash" } else { "" }),
        setup: Setup { weight: 5, buffer: 64, hash_fn: if colliding { HashFn::Constant(7) } else { HashFn::Identity }, ..Setup::default() },
        world: Default::default(),
        prefix: vec![],
        alphabet: vec![put(1, 2), put_ttl(1, 3, 1500), del(1), put(2, 4), del(2), put_ttl(2, 1, 1000), put_ttl(2, 1, 1500), adv(1000), adv(2000), Op::TickWait, get(1)],
        depth: if ctx.quick() { 8 } else { 10 },
        allow: None,
        oracle: seq_oracle(),
        keys: vec![1, 2],
        canon_sketch: false,
        ghost_key: None,
        max_states: 2_000_000,
        time_cap_s: if ctx.quick() { 15.0 } else { 300.0 },
    }
}

pub fn def(ctx: &Ctx) -> PropertyDef {
    let quick = ctx.quick();
    let workers = ctx.workers;
    let mut scenarios: Vec<Scenario> = Vec::new();
    for (p, gone, reput) in programs() {
        let three = p.threads.len() >= 3;
        scenarios.push({
                let nthreads = p.threads.len();
                program_scenario(p, oracle(gone, reput), move |c| crate::harness::ilv::tier_cfg(c, nthreads))
            });
    }
    scenarios.push(seq_scenario(|c| seq_spec(c, false), "seq/delete-in-every-life-cycle-state"));
    scenarios.push(seq_scenario(|c| seq_spec(c, true), "seq/delete-in-every-life-cycle-state/all-keys-one-hash"));
    PropertyDef {
        id: "C04",
        technique: "stateless preemption-bounded model checking of the real code (deleter, readers, worker, sweeper) with a history oracle on step stamps, plus explicit-state BFS over delete in every life-cycle state",
        rule: "ilv: every schedule of each program up to the bound; distinct_nontrivial = distinct overlapping call/return histories; seq: canonical states first reached at depth >= 2",
        assumptions: COMMON_ASSUMPTIONS.to_vec(),
        scenarios,
    }
}
