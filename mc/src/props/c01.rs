//! C01 - the total weight stays within [0, W] at every instant.
//!
//! seq: invariant on every quiescent state reachable with <= d operations from an alphabet mixing every
//!      write variant, weight-changing upserts, deletes, clock steps and sweeps, for W in {2,3,4}.
//! ilv: the same bound as a *monitor* evaluated at every scheduling point at which `weight_used` is not
//!      write-locked, while 2-3 clients, the worker and the sweeper interleave.
use super::common::*;
use super::{Ctx, PropertyDef, Scenario, COMMON_ASSUMPTIONS};
use crate::cache::command::CommandStatus;
use crate::harness::ilv::{program_scenario, IlvCfg, MonitorKind, Oracle, Program, Run};
use crate::harness::kit::*;
use crate::harness::seq::*;
use std::sync::Arc;

fn culprit(run: &SeqRun) -> &'static str {
    let i = run.last();
    let c = &run.calls[i];
    let (b, a) = (run.before(), run.after());
    let changed = a.weights.iter().any(|w| b.weight_of_id(w.0).map(|x| x != w.3).unwrap_or(false));
    let added = a.weights.iter().any(|w| b.weight_of_id(w.0).is_none());
    match &c.op {
        Op::Upsert { k, w, ttl_ms, remove_ttl, .. } if !is_put_path(c) && changed => {
            // the recorded defect (no bound check) has an exact shape: the key ends up charged with exactly the
            // requested weight and the total moved by exactly the difference. Anything else is a different bug.
            let (old_entry, new_entry) = (b.entry(*k), a.entry(*k));
            let ok = match (old_entry, new_entry) {
                (Some(oe), Some(ne)) if oe.2 == ne.2 => {
                    let old = b.weight_of_id(oe.2).unwrap_or(0);
                    let requested = match w {
                        Some(w) => Some(*w),
                        None if ttl_ms.is_some() && oe.3.is_none() => Some(old + 24),
                        None if *remove_ttl && oe.3.is_some() => Some(old - 24),
                        None => None,
                    };
                    match requested {
                        Some(r) => a.weight_of_id(ne.2) == Some(r) && a.weight_used - b.weight_used == r - old && a.weights.len() == b.weights.len(),
                        None => false,
                    }
                }
                _ => false,
            };
            // ... and needs a weight table that is otherwise in order (every charged id belongs to the stored key it names)
            if ok && accounting_violations(b).is_empty() && accounting_violations(a).is_empty() {
                "weight-update-of-existing-key"
            } else {
                "miscounted-weight-update"
            }
        }
        Op::Put { .. } if added => "put",
        Op::Upsert { .. } if added => "upsert-as-put",
        Op::Delete { .. } => "delete",
        Op::TickWait | Op::Tick => "sweep",
        _ if changed => "weight-changed-by-other-step",
        _ => "other",
    }
}

fn seq_oracle() -> SeqOracle {
    Arc::new(|run: &SeqRun, out: &mut Vec<Finding>| {
        let i = run.last();
        let c = &run.calls[i];
        let (b, a) = (run.before(), run.after());
        // inductive form: blame the step that takes the total out of range, not the steps after it
        let before_ok = b.weight_used >= 0 && b.weight_used <= b.max_weight;
        if before_ok && a.weight_used > a.max_weight {
            out.push(Finding::new("total>limit", format!("weight:total>limit:via-{}", culprit(run)), format!("{} took the total weight used from {} to {} but the cache weight is {}", c.op.short(), b.weight_used, a.weight_used, a.max_weight)));
        }
        if before_ok && a.weight_used < 0 {
            out.push(Finding::new("total<0", format!("weight:total<0:via-{}", culprit(run)), format!("{} took the total weight used from {} to {}", c.op.short(), b.weight_used, a.weight_used)));
        }
        if let Res::Weight(w) = c.res {
            if w != a.weight_used {
                out.push(Finding::new("reported-total-differs", "weight:reported-differs-from-state", format!("total_weight_used() returned {} but the accounted total is {}", w, a.weight_used)));
            }
        }
    })
}

fn seq_spec(ctx: &Ctx, w: i64) -> SeqSpec {
    let quick = ctx.quick();
    let mut alphabet: Vec<Op> = Vec::new();
    let weights = [1, 2, w, w + 1];
    let mut ws: Vec<i64> = weights.to_vec();
    ws.sort();
    ws.dedup();
    for k in 1..=3u64 {
        for &wt in &ws {
            alphabet.push(Op::Put { k, w: Some(wt), ttl_ms: None });
            if k <= 2 {
                alphabet.push(Op::Put { k, w: Some(wt), ttl_ms: Some(2000) });
            }
        }
        alphabet.push(Op::Delete { k });
    }
    // weight function variants (weight 1, +1 with TTL)
    alphabet.push(Op::Put { k: 3, w: None, ttl_ms: None });
    alphabet.push(Op::Put { k: 3, w: None, ttl_ms: Some(2000) });
    for k in 1..=2u64 {
        for wt in [1, w, w + 1] {
            alphabet.push(Op::Upsert { k, value: true, w: Some(wt), ttl_ms: None, remove_ttl: false });
        }
        alphabet.push(Op::Upsert { k, value: false, w: Some(w), ttl_ms: Some(2000), remove_ttl: false });
        alphabet.push(Op::Upsert { k, value: true, w: None, ttl_ms: None, remove_ttl: false });
    }
    alphabet.push(Op::Advance { ms: 1000 });
    alphabet.push(Op::Advance { ms: 3000 });
    alphabet.push(Op::TickWait);
    alphabet.push(Op::Read { k: 1, variant: ReadVariant::Get });
    alphabet.push(Op::TotalWeight);
    SeqSpec {
        name: format!("seq/weight-bound/W={}", w),
        setup: Setup { weight: w, buffer: 2, weight_fn: WeightFn::Const { c: 1, ttl_extra: 1 }, ..Setup::default() },
        world: Default::default(),
        prefix: vec![],
        alphabet,
        depth: if quick { 4 } else { 5 },
        allow: Some(Arc::new(|_h, present, a| match a {
            Op::Upsert { k, value: false, .. } => present.contains(k),
            _ => true,
        })),
        oracle: seq_oracle(),
        keys: vec![1, 2, 3],
        canon_sketch: true,
        ghost_key: None,
        max_states: 3_000_000,
        time_cap_s: if quick { 15.0 } else { 500.0 },
    }
}

/// The time-to-live moves of put_or_update (a TTL added to / removed from / renewed on an existing key, which re-derive
/// the key's weight as +-24 bytes of expiry-index entry) over keys that are live, expired but not yet swept, or swept.
fn ttl_moves_spec(ctx: &Ctx) -> SeqSpec {
    let quick = ctx.quick();
    let alphabet = vec![
        Op::Put { k: 1, w: Some(30), ttl_ms: Some(2000) },
        Op::Put { k: 1, w: Some(25), ttl_ms: Some(2000) },
        Op::Put { k: 2, w: Some(30), ttl_ms: None },
        Op::Upsert { k: 1, value: false, w: None, ttl_ms: None, remove_ttl: true },
        Op::Upsert { k: 1, value: false, w: None, ttl_ms: Some(2000), remove_ttl: false },
        Op::Upsert { k: 2, value: false, w: None, ttl_ms: Some(2000), remove_ttl: false },
        Op::Upsert { k: 2, value: false, w: None, ttl_ms: None, remove_ttl: true },
        Op::Delete { k: 1 },
        Op::Advance { ms: 3000 },
        Op::TickWait,
        Op::TotalWeight,
    ];
    SeqSpec {
        name: "seq/weight-bound/ttl-moves/W=60".into(),
        setup: Setup { weight: 60, buffer: 2, weight_fn: WeightFn::Const { c: 30, ttl_extra: 24 }, ..Setup::default() },
        world: Default::default(),
        prefix: vec![],
        alphabet,
        depth: if quick { 5 } else { 7 },
        allow: Some(Arc::new(|_h, present, a| match a {
            Op::Upsert { k, value: false, .. } => present.contains(k),
            _ => true,
        })),
        oracle: seq_oracle(),
        keys: vec![1, 2],
        canon_sketch: true,
        ghost_key: None,
        max_states: 3_000_000,
        time_cap_s: if quick { 10.0 } else { 500.0 },
    }
}

/// Second lives with a capacity hint (2) below the number of keys that come and go: the history starts with a heavy key
/// alive and a light key already through one life; weight changes of either, re-puts and deletes follow.
fn second_lives_spec(ctx: &Ctx) -> SeqSpec {
    let quick = ctx.quick();
    let ups = |k: K, w: i64| Op::Upsert { k, value: true, w: Some(w), ttl_ms: None, remove_ttl: false };
    SeqSpec {
        name: "seq/weight-bound/second-lives/W=4/capacity=2".into(),
        setup: Setup { weight: 4, buffer: 2, capacity: 2, weight_fn: WeightFn::Const { c: 1, ttl_extra: 1 }, ..Setup::default() },
        world: Default::default(),
        prefix: vec![Op::Put { k: 1, w: Some(3), ttl_ms: None }, Op::Put { k: 2, w: Some(1), ttl_ms: None }, Op::Delete { k: 2 }],
        alphabet: vec![
            Op::Put { k: 2, w: Some(1), ttl_ms: None },
            Op::Put { k: 3, w: Some(1), ttl_ms: Some(2000) },
            ups(1, 2),
            ups(1, 1),
            ups(2, 1),
            Op::Delete { k: 1 },
            Op::Delete { k: 2 },
            Op::Delete { k: 3 },
            Op::Advance { ms: 3000 },
            Op::TickWait,
            Op::TotalWeight,
        ],
        depth: if quick { 4 } else { 7 },
        allow: None,
        oracle: seq_oracle(),
        keys: vec![1, 2, 3],
        canon_sketch: true,
        ghost_key: None,
        max_states: 3_000_000,
        time_cap_s: if quick { 10.0 } else { 500.0 },
    }
}

// ---------------------------------------------------------------------------------------------- ilv
fn ilv_oracle() -> Oracle {
    Arc::new(|run: &Run, out: &mut Vec<crate::harness::ilv::Finding>| {
        for h in &run.monitor_hits {
            // attribute: which command was the worker executing when the total left the range, and in which direction?
            // (the concurrent programs never request a weight that does not fit, so the recorded sequential
            // finding can not show up here: every hit is reported under its own signature)
            let via = if h.contains("during=UpdateWeight") { "during-UpdateWeight" } else { "other" };
            let dir = if h.contains("weight_used=-") { "total<0" } else { "total>limit" };
            out.push(crate::harness::ilv::Finding::new("total-out-of-range-at-some-instant", format!("weight:{}:via-{}", dir, via), h.clone()));
        }
        for (o, when) in [(&run.obs_end, "at the end of the window"), (&run.obs_post, "after the probe")] {
            if (o.weight_used > o.max_weight || o.weight_used < 0) && run.monitor_hits.is_empty() {
                let via = "unobserved-by-monitor";
                let dir = if o.weight_used < 0 { "total<0" } else { "total>limit" };
                out.push(crate::harness::ilv::Finding::new("total-out-of-range", format!("weight:{}:via-{}", dir, via), format!("{}: total weight {} with limit {}", when, o.weight_used, o.max_weight)));
            }
        }
    })
}

fn ilv_programs() -> Vec<Program> {
    let mut v = Vec::new();
    let mk = |name: &str, w: i64, init: Vec<Op>, threads: Vec<Vec<Op>>| {
        let mut p = Program::new(name);
        p.setup = Setup { weight: w, ..Setup::default() };
        p.init = init;
        p.threads = threads;
        p.monitor = MonitorKind::WeightBound;
        p.world.iter_order_is_choice = true;
        p
    };
    v.push(mk("ilv/put(a,2)||put(b,2)||put(c,2)/W=4", 4, vec![], vec![vec![put(1, 2)], vec![put(2, 2)], vec![put(3, 2)]]));
    v.push(mk("ilv/put(c,3)||delete(a)/W=4", 4, vec![put(1, 2), put(2, 2)], vec![vec![put(3, 3)], vec![del(1)]]));
    v.push(mk("ilv/put(c,3)||upsert(a,w=1)/W=4", 4, vec![put(1, 2), put(2, 2)], vec![vec![put(3, 3)], vec![Op::Upsert { k: 1, value: true, w: Some(1), ttl_ms: None, remove_ttl: false }]]));
    v.push(mk("ilv/put_ttl(c,2)||{clock;tick}/W=4", 4, vec![put_ttl(1, 2, 1000), put(2, 2)], vec![vec![put_ttl(3, 2, 5000)], vec![adv(3000), Op::Tick]]));
    v.push(mk("ilv/upsert(a,w=1)||{clock;tick} sweeping a/W=6", 6, vec![put_ttl(1, 4, 1000), put(2, 1)], vec![vec![Op::Upsert { k: 1, value: true, w: Some(1), ttl_ms: None, remove_ttl: false }], vec![adv(3000), Op::Tick]]));
    v.push(mk("ilv/upsert(a,w=1)||{clock;tick} sweeping b/W=6", 6, vec![put(1, 3), put_ttl(2, 3, 1000)], vec![vec![Op::Upsert { k: 1, value: true, w: Some(1), ttl_ms: None, remove_ttl: false }], vec![adv(3000), Op::Tick]]));
    v.push(mk("ilv/evicting-put(c,5)||{tick} sweeping a/W=6", 6, vec![put_ttl(1, 3, 1000), put(2, 3), adv(3000)], vec![vec![put(3, 5)], vec![Op::Tick]]));
    v.push(mk("ilv/put(b,2);put(c,2)||delete(a);put(a,3)/W=4", 4, vec![put(1, 2)], vec![vec![put(2, 2), put(3, 2)], vec![del(1), put(1, 3)]]));
    for (name, w, init, threads) in [
        ("ilv/put(a,2)||put(b,2)||{tick} sweeping c||upsert(c,w=1)/W=4", 4i64, vec![put_ttl(3, 2, 1000), adv(3000)], vec![vec![put(1, 2)], vec![put(2, 2)], vec![Op::Tick], vec![Op::Upsert { k: 3, value: true, w: Some(1), ttl_ms: None, remove_ttl: false }]]),
        ("ilv/put(c,4)||delete(a);put(a,2)||put(d,1)/W=5", 5, vec![put(1, 2), put(2, 2)], vec![vec![put(3, 4)], vec![del(1), put(1, 2)], vec![put(4, 1)]]),
    ] {
        let mut p = mk(name, w, init, threads);
        p.thorough_only = true;
        v.push(p);
    }
    v
}

pub fn def(ctx: &Ctx) -> PropertyDef {
    let mut scenarios: Vec<Scenario> = Vec::new();
    for w in [2i64, 3, 4] {
        let name = seq_spec(ctx, w).name;
        scenarios.push(seq_scenario(move |c| seq_spec(c, w), &name));
    }
    scenarios.push(seq_scenario(ttl_moves_spec, "seq/weight-bound/ttl-moves/W=60"));
    scenarios.push(seq_scenario(second_lives_spec, "seq/weight-bound/second-lives/W=4/capacity=2"));
    let quick = ctx.quick();
    let workers = ctx.workers;
    for p in crate::harness::ilv::for_tier(ilv_programs(), quick) {
        let three = p.threads.len() >= 3;
        scenarios.push({
                let nthreads = p.threads.len();
                program_scenario(p, ilv_oracle(), move |c| crate::harness::ilv::tier_cfg(c, nthreads))
            });
    }
    PropertyDef {
        id: "C01",
        technique: "explicit-state model checking (BFS over operation sequences, canonical-state deduplication) + stateless preemption-bounded model checking with an every-scheduling-point monitor, both on the real code",
        rule: "seq: all histories over the alphabet up to the depth (distinct_nontrivial = canonical states first reached at depth >= 2); ilv: every schedule up to the bound, the monitor evaluates total_weight at every scheduling point where the lock is not write-held",
        assumptions: COMMON_ASSUMPTIONS.to_vec(),
        scenarios,
    }
}
