//! Specification-level helpers shared by the sequential oracles: what the *property statements*
//! say a key's value and deadline are after a quiescent history ("ghost state"), and what a read
//! should return given a state snapshot.
use crate::cache::command::{CommandStatus, RejectionReason};
use crate::harness::kit::*;
use crate::harness::seq::SeqRun;
use std::collections::BTreeMap;

/// What a read of `k` returns according to the snapshot: present, not soft-deleted, not past its expiry.
/// `None` in the second component means "the instant now == expiry": unspecified.
pub fn model_read(o: &Obs, k: K) -> (Option<V>, bool) {
    match o.entry(k) {
        None => (None, true),
        Some((_, v, _id, e, deleted)) => {
            if *deleted {
                return (None, true);
            }
            match e {
                None => (Some(*v), true),
                Some(e) if o.now_ms < *e => (Some(*v), true),
                Some(e) if o.now_ms > *e => (None, true),
                Some(_) => (Some(*v), false),
            }
        }
    }
}

#[derive(Clone, Debug, PartialEq)]
pub struct GhostEntry {
    pub value: V,
    pub deadline: Option<u64>,
    /// step that last wrote the value / the deadline (for messages)
    pub by: usize,
}

pub type Ghost = BTreeMap<K, GhostEntry>;

pub fn is_put_path(c: &Call) -> bool {
    matches!(&c.res, Res::Write { sent: Some(s), .. } if s == "Put" || s == "PutWithTTL")
}

/// Ghost state after the first `upto` steps. `pressure`: keys that vanish from the store during a
/// put of another key are taken to be evicted (allowed under memory pressure).
pub fn ghost_after(run: &SeqRun, upto: usize, pressure: bool) -> Ghost {
    let mut g: Ghost = BTreeMap::new();
    for i in 0..upto {
        let c = &run.calls[i];
        let st = run.statuses[i];
        let now = c.now_ms_inv;
        match &c.op {
            Op::Put { k, ttl_ms, .. } => {
                if st == Some(CommandStatus::Accepted) {
                    g.insert(*k, GhostEntry { value: c.value.unwrap(), deadline: ttl_ms.map(|t| now + t), by: i });
                }
            }
            Op::Upsert { k, value, ttl_ms, remove_ttl, .. } => {
                if is_put_path(c) {
                    if st == Some(CommandStatus::Accepted) {
                        g.insert(*k, GhostEntry { value: c.value.unwrap(), deadline: ttl_ms.map(|t| now + t), by: i });
                    }
                } else if matches!(&c.res, Res::Write { err: false, .. }) {
                    if let Some(e) = g.get_mut(k) {
                        if *value {
                            e.value = c.value.unwrap();
                        }
                        if *remove_ttl {
                            e.deadline = None;
                        } else if let Some(t) = ttl_ms {
                            e.deadline = Some(now + t);
                        }
                        e.by = i;
                    }
                }
            }
            Op::Delete { k } => {
                if st == Some(CommandStatus::Accepted) {
                    g.remove(k);
                }
            }
            _ => {}
        }
        if pressure {
            // a key that left the store while another key was being admitted was evicted
            let before = &run.obs[i];
            let after = &run.obs[i + 1];
            let admitting = matches!(&c.op, Op::Put { .. }) || is_put_path(c);
            if admitting {
                for e in before.store.iter() {
                    if Some(e.0) != c.op.key() && after.entry(e.0).is_none() {
                        g.remove(&e.0);
                    }
                }
            }
        }
    }
    g
}

/// Expected read of `k` at clock `now`: Some(Some(v)) must return v, Some(None) must be absent,
/// None = unspecified (the instant now == deadline).
pub fn expected_read(g: &Ghost, k: K, now: u64) -> Option<Option<V>> {
    match g.get(&k) {
        None => Some(None),
        Some(e) => match e.deadline {
            None => Some(Some(e.value)),
            Some(d) if now < d => Some(Some(e.value)),
            Some(d) if now > d => Some(None),
            Some(_) => None,
        },
    }
}

pub fn rejected_by_admission(st: Option<CommandStatus>) -> bool {
    matches!(
        st,
        Some(CommandStatus::Rejected(RejectionReason::EnoughSpaceIsNotAvailableAndKeyFailedToEvictOthers)) | Some(CommandStatus::Rejected(RejectionReason::KeyWeightIsGreaterThanCacheWeight))
    )
}

/// Results of an `Op::ReadAll { keys }` call as (variant, key, value).
pub fn read_all_results(c: &Call) -> Vec<(ReadVariant, K, Option<V>)> {
    let mut out = Vec::new();
    if let (Op::ReadAll { keys }, Res::MultiRead(vs)) = (&c.op, &c.res) {
        for (vi, variant) in ALL_READ_VARIANTS.iter().enumerate() {
            for (ki, k) in keys.iter().enumerate() {
                if let Some(v) = vs.get(vi * keys.len() + ki) {
                    out.push((*variant, *k, *v));
                }
            }
        }
    }
    out
}

pub fn put(k: K, w: i64) -> Op {
    Op::Put { k, w: Some(w), ttl_ms: None }
}
pub fn put_ttl(k: K, w: i64, ttl: u64) -> Op {
    Op::Put { k, w: Some(w), ttl_ms: Some(ttl) }
}
pub fn get(k: K) -> Op {
    Op::Read { k, variant: ReadVariant::Get }
}
pub fn del(k: K) -> Op {
    Op::Delete { k }
}
pub fn adv(ms: u64) -> Op {
    Op::Advance { ms }
}

/// Deduplication key for specification-level expectations: per key the expected deadline and whether the
/// stored value is the expected one. Histories that reach the same implementation state with different
/// expectations are *not* merged, so a divergence between the two is always explored further.
pub fn ghost_key(pressure: bool) -> std::sync::Arc<dyn Fn(&SeqRun) -> String + Send + Sync> {
    std::sync::Arc::new(move |run: &SeqRun| {
        let g = ghost_after(run, run.ops.len(), pressure);
        let o = &run.obs[run.ops.len()];
        let mut s = String::new();
        for (k, e) in g.iter() {
            let stored = o.entry(*k).map(|x| x.1);
            s.push_str(&format!("{}:{:?}:{};", k, e.deadline.map(|d| d as i64 - T0_MS as i64), if stored == Some(e.value) { "=" } else { "!" }));
        }
        s
    })
}

/// "Unswept" means what it says: no sweep of the shard of this entry's expiry has run at an instant past that
/// expiry while the entry (same id, same expiry) was held. True when the entry of `k` held before step `upto`
/// was passed over by such a sweep.
pub fn passed_over_by_its_sweep(run: &SeqRun, upto: usize, k: K) -> bool {
    let shards = run.setup.shards as u64;
    let e = match run.obs[upto].entry(k) {
        Some(e) => *e,
        None => return false,
    };
    (0..upto).any(|j| {
        matches!(run.calls[j].op, Op::TickWait | Op::Tick)
            && run.obs[j].entry(k).map(|b| (b.2, b.3)) == Some((e.2, e.3))
            && e.3.map_or(false, |x| run.obs[j].now_ms > x && (run.obs[j].now_ms / 1000) % shards == (x / 1000) % shards)
    })
}


/// Deduplication key for oracles that classify an expired entry by whether a sweep has passed it over.
pub fn passed_over_key(keys: Vec<K>) -> std::sync::Arc<dyn Fn(&SeqRun) -> String + Send + Sync> {
    std::sync::Arc::new(move |run: &SeqRun| keys.iter().map(|k| if passed_over_by_its_sweep(run, run.ops.len(), *k) { '!' } else { '.' }).collect::<String>())
}
