//! C02 - reads return only the current value of the key, never stale or foreign.
//!
//! ilv: readers race upserts, delete+re-put, evicting puts and expiry on overlapping keys; every read
//!      that returns a value is checked against the effect intervals of the writes (lin::check_reads).
//! seq: in every quiescent state all seven read variants agree with the stored entry.
use super::common::*;
use super::lin;
use super::{Ctx, PropertyDef, Scenario, COMMON_ASSUMPTIONS};
use crate::harness::ilv::*;
use crate::harness::kit::*;
use crate::harness::seq::{seq_scenario, SeqOracle, SeqRun, SeqSpec};
use std::sync::Arc;

fn oracle() -> Oracle {
    Arc::new(|run: &Run, out: &mut Vec<Finding>| {
        lin::check_reads(run, out);
    })
}

fn rd(k: K, v: ReadVariant) -> Op {
    Op::Read { k, variant: v }
}
fn ups_v(k: K) -> Op {
    Op::Upsert { k, value: true, w: None, ttl_ms: None, remove_ttl: false }
}

fn programs(quick: bool) -> Vec<(Program, bool)> {
    // (program, core?) - core families get the higher bound
    let mut v: Vec<(Program, bool)> = Vec::new();
    let mk = |name: String, w: i64, init: Vec<Op>, threads: Vec<Vec<Op>>| {
        let mut p = Program::new(&name);
        p.setup = Setup { weight: w, ..Setup::default() };
        p.init = init;
        p.threads = threads;
        p
    };
    let variants: Vec<ReadVariant> = if quick { vec![ReadVariant::Get, ReadVariant::GetRef, ReadVariant::MultiGetIterator] } else { ALL_READ_VARIANTS.to_vec() };
    for (i, var) in variants.iter().enumerate() {
        let core = i == 0;
        v.push((mk(format!("upsert(k)||{:?}(k)x2", var), 10, vec![put(1, 2)], vec![vec![ups_v(1)], vec![rd(1, *var), rd(1, *var)]]), core));
        v.push((mk(format!("delete(k);put(k)||{:?}(k)x2", var), 10, vec![put(1, 2)], vec![vec![del(1), put(1, 2)], vec![rd(1, *var), rd(1, *var)]]), core));
    }
    // eviction under memory pressure, identity and constant (all keys collide) hash functions
    for (hname, hf) in [("identity-hash", HashFn::Identity), ("constant-hash", HashFn::Constant(7))] {
        let mut p = mk(format!("evicting-put(c)||get(a);get(b)/{}", hname), 4, vec![put(1, 2), put(2, 1)], vec![vec![put(3, 3)], vec![get(1), get(2)]]);
        p.setup.hash_fn = hf;
        p.world.iter_order_is_choice = true;
        v.push((p, true));
    }
    // expiry racing reads
    v.push((mk("{clock;tick}||get(k)x2".into(), 10, vec![put_ttl(1, 2, 1000)], vec![vec![adv(3000), Op::Tick], vec![get(1), get(1)]]), true));
    // two keys behind one shard lock
    {
        let mut p = mk("upsert(a);delete(b)||get(b);get(a)/one-shard".into(), 10, vec![put(1, 2), put(2, 2)], vec![vec![ups_v(1), del(2)], vec![get(2), get(1)]]);
        p.world.dash_single_shard = true;
        v.push((p, true));
    }
    // multi-key reads
    for var in [ReadVariant::MultiGet, ReadVariant::MultiGetIterator, ReadVariant::MultiGetMapIterator] {
        v.push((mk(format!("upsert(a);delete(b)||{:?}([a,b])", var), 10, vec![put(1, 2), put(2, 2)], vec![vec![ups_v(1), del(2)], vec![Op::MultiRead { keys: vec![1, 2], variant: var }]]), false));
    }
    // a put that admission refuses never becomes readable, not even while the worker is still deciding
    v.push((mk("put(c, heavier than the cache)||get(c)x2".into(), 4, vec![put(1, 2)], vec![vec![put(3, 5)], vec![get(3), get(3)]]), false));
    {
        let mut p = mk("put(c) refused for a hotter resident||get(c)x2".into(), 2, vec![put(1, 2), get(1), get(1), get(1)], vec![vec![put(3, 2)], vec![get(3), get(3)]]);
        p.setup.buffer = 1;
        v.push((p, false));
    }
    // lazy iterators over a repeated key: every `next()` is a read of its own (per-element intervals), a write that
    // completes between two of them must be seen by the later one
    for var in [ReadVariant::MultiGetIterator, ReadVariant::MultiGetMapIterator] {
        v.push((mk(format!("upsert(k)||{:?}([k,k,k])", var), 10, vec![put(1, 2)], vec![vec![ups_v(1)], vec![Op::MultiRead { keys: vec![1, 1, 1], variant: var }]]), false));
        v.push((mk(format!("delete(k)||{:?}([k,k])", var), 10, vec![put(1, 2)], vec![vec![del(1)], vec![Op::MultiRead { keys: vec![1, 1], variant: var }]]), false));
    }
    // a value-less upsert between delete(k) returning and the Delete command being executed must not revive the value
    for (name, op) in [
        ("weight-only", Op::Upsert { k: 1, value: false, w: Some(3), ttl_ms: None, remove_ttl: false }),
        ("ttl-only", Op::Upsert { k: 1, value: false, w: None, ttl_ms: Some(5000), remove_ttl: false }),
        ("remove-ttl", Op::Upsert { k: 1, value: false, w: None, ttl_ms: None, remove_ttl: true }),
    ] {
        let mut p = mk(format!("delete(k);upsert(k,{});get(k)||get(k) [worker stopped]", name), 100, vec![put_ttl(1, 30, 9000)], vec![vec![del(1), op, get(1)], vec![get(1)]]);
        p.frozen = vec![Role::Worker];
        v.push((p, false));
    }
    // the same on a key that readers already cannot see (expired, not yet swept): the delete must still take, or a
    // TTL-only upsert that re-arms the expiry serves the deleted value through every read variant
    for (name, op) in [
        ("ttl-only", Op::Upsert { k: 1, value: false, w: None, ttl_ms: Some(5000), remove_ttl: false }),
        ("remove-ttl+weight", Op::Upsert { k: 1, value: false, w: Some(30), ttl_ms: None, remove_ttl: true }),
    ] {
        let mut p = mk(format!("expired-unswept: delete(k);upsert(k,{});read_all(k) [worker stopped]", name), 100, vec![put_ttl(1, 30, 1000), adv(3000)], vec![vec![del(1), op.clone(), Op::ReadAll { keys: vec![1] }]]);
        p.frozen = vec![Role::Worker];
        v.push((p, false));
        let mut p = mk(format!("expired-unswept: delete(k);get(k)||upsert(k,{});get_ref(k)", name), 100, vec![put_ttl(1, 30, 1000), adv(3000)], vec![vec![del(1), get(1)], vec![op, rd(1, ReadVariant::GetRef)]]);
        p.tolerate_value_missing = true;
        v.push((p, false));
    }
    // sequential: an upsert carrying a value supersedes the old value even when the key had expired but was not swept
    for (name, op) in [
        ("value+ttl", Op::Upsert { k: 1, value: true, w: None, ttl_ms: Some(3000), remove_ttl: false }),
        ("value+remove-ttl", Op::Upsert { k: 1, value: true, w: None, ttl_ms: None, remove_ttl: true }),
    ] {
        v.push((mk(format!("clock+2s;upsert(k,{});get(k);get_ref(k) on an expired-unswept key", name), 100, vec![put_ttl(1, 30, 1000)], vec![vec![adv(2000), op, get(1), rd(1, ReadVariant::GetRef)]]), false));
    }
    // sequential: every accepted upsert that carries a value supersedes the old one, whatever else the request says
    // and whatever the key's TTL state (none, live, removed a moment ago)
    {
        let vr = Op::Upsert { k: 1, value: true, w: None, ttl_ms: None, remove_ttl: true };
        let vt = Op::Upsert { k: 1, value: true, w: None, ttl_ms: Some(4000), remove_ttl: false };
        let vw = Op::Upsert { k: 1, value: true, w: Some(31), ttl_ms: None, remove_ttl: false };
        v.push((mk("upsert(k,value+remove-ttl);get;upsert(k,value+remove-ttl);read_all on a key without TTL".into(), 100, vec![put(1, 30)], vec![vec![vr.clone(), get(1), vr.clone(), Op::ReadAll { keys: vec![1] }]]), false));
        v.push((mk("upsert(k,value+remove-ttl) twice;read_all on a TTL key".into(), 100, vec![put_ttl(1, 30, 9000)], vec![vec![vr.clone(), get(1), vr.clone(), Op::ReadAll { keys: vec![1] }]]), false));
        // the clock stands still inside the window: a value upsert that re-states the TTL the key already has computes
        // the very same deadline - the value is replaced all the same
        let same_ttl = Op::Upsert { k: 1, value: true, w: None, ttl_ms: Some(9000), remove_ttl: false };
        v.push((mk("upsert(k,value+the same ttl);get;read_all under a standing clock".into(), 100, vec![put_ttl(1, 30, 9000)], vec![vec![same_ttl, get(1), Op::ReadAll { keys: vec![1] }]]), false));
        v.push((mk("upsert(k,value+ttl);get;upsert(k,value+weight);get;upsert(k,value+remove-ttl);read_all".into(), 100, vec![put(1, 30)], vec![vec![vt, get(1), vw, get(1), vr, Op::ReadAll { keys: vec![1] }]]), false));
    }
    // an expired, unswept key: a value upsert (accepted) followed by a TTL-only upsert that revives the entry must
    // serve the upsert's value, not the one it superseded
    {
        let ttl_only = Op::Upsert { k: 1, value: false, w: None, ttl_ms: Some(5000), remove_ttl: false };
        let rm_only = Op::Upsert { k: 1, value: false, w: Some(30), ttl_ms: None, remove_ttl: true };
        v.push((mk("clock+2s;upsert(k,value);upsert(k,ttl-only);get;read_all on an expired-unswept key".into(), 100, vec![put_ttl(1, 30, 1000)], vec![vec![adv(2000), ups_v(1), ttl_only, get(1), Op::ReadAll { keys: vec![1] }]]), false));
        v.push((mk("clock+2s;upsert(k,value);upsert(k,remove-ttl+weight);get;read_all on an expired-unswept key".into(), 100, vec![put_ttl(1, 30, 1000)], vec![vec![adv(2000), ups_v(1), rm_only, get(1), Op::ReadAll { keys: vec![1] }]]), false));
    }
    // reference reads of a TTL key while its delete is in flight
    for var in [ReadVariant::GetRef, ReadVariant::MapGetRef] {
        v.push((mk(format!("delete(k);{:?}(k)||{:?}(k)x2 /ttl", var, var), 100, vec![put_ttl(1, 30, 9000)], vec![vec![del(1), rd(1, var)], vec![rd(1, var), rd(1, var)]]), false));
    }
    // two writers and a reader
    v.push((mk("upsert(k)||upsert(k)||get(k)".into(), 10, vec![put(1, 2)], vec![vec![ups_v(1)], vec![ups_v(1)], vec![get(1)]]), false));
    // put not yet applied racing a reader and a deleter
    v.push((mk("put(k)||delete(k)||get(k)".into(), 10, vec![], vec![vec![put(1, 2)], vec![del(1)], vec![get(1), get(1)]]), false));
    v
}

fn agree_oracle() -> SeqOracle {
    Arc::new(|run: &SeqRun, out: &mut Vec<crate::harness::seq::Finding>| {
        let i = run.last();
        let c = &run.calls[i];
        if let (Op::MultiRead { keys, variant }, Res::MultiRead(vs)) = (&c.op, &c.res) {
            let before = run.before();
            for (i, k) in keys.iter().enumerate() {
                let (exp, specified) = model_read(before, *k);
                let got = vs.get(i).copied().flatten();
                if specified && got != exp {
                    out.push(crate::harness::seq::Finding::new("read-disagrees-with-state", "read:multi-key-position-disagrees", format!("{:?}({:?}) returned {:?} at position {} (key {}) but the stored entry says {:?}", variant, keys, got, i, k, exp)));
                }
            }
        }
        if let Op::ReadAll { .. } = &c.op {
            let before = run.before();
            let results = read_all_results(c);
            for (variant, k, got) in &results {
                let (exp, specified) = model_read(before, *k);
                if specified && *got != exp {
                    out.push(crate::harness::seq::Finding::new("read-disagrees-with-state", "read:disagrees-with-snapshot", format!("{:?}({}) returned {:?} but the stored entry says {:?}", variant, k, got, exp)));
                }
                if let Some(v) = got {
                    if token_key(*v) != *k {
                        out.push(crate::harness::seq::Finding::new("foreign-value", "read:foreign-value", format!("{:?}({}) returned {} which was written to key {}", variant, k, v, token_key(*v))));
                    }
                }
            }
        }
    })
}

fn agree_spec(ctx: &Ctx) -> SeqSpec {
    SeqSpec {
        name: "seq/read-variants-agree".into(),
        setup: Setup { weight: 5, buffer: 64, hash_fn: HashFn::Constant(3), ..Setup::default() },
        world: Default::default(),
        prefix: vec![],
        alphabet: vec![
            put(1, 2),
            put_ttl(2, 2, 1500),
            put(3, 4),
            Op::Upsert { k: 1, value: true, w: None, ttl_ms: None, remove_ttl: false },
            Op::Upsert { k: 2, value: true, w: None, ttl_ms: Some(3000), remove_ttl: false },
            del(1),
            del(2),
            adv(2000),
            Op::TickWait,
            Op::ReadAll { keys: vec![1, 2, 3] },
            // positional multi-key reads with a key repeated (consecutively and not)
            Op::MultiRead { keys: vec![1, 1, 2], variant: ReadVariant::MultiGetIterator },
            Op::MultiRead { keys: vec![2, 1, 2, 2, 3], variant: ReadVariant::MultiGetMapIterator },
            Op::MultiRead { keys: vec![1, 1, 2], variant: ReadVariant::MultiGet },
        ],
        depth: if ctx.quick() { 6 } else { 7 },
        allow: None,
        oracle: agree_oracle(),
        keys: vec![1, 2, 3],
        canon_sketch: false,
        ghost_key: None,
        max_states: 2_000_000,
        time_cap_s: if ctx.quick() { 15.0 } else { 300.0 },
    }
}

pub fn def(ctx: &Ctx) -> PropertyDef {
    let quick = ctx.quick();
    let workers = ctx.workers;
    let mut scenarios: Vec<Scenario> = Vec::new();
    for (p, core) in programs(quick) {
        let three = p.threads.len() >= 3;
        scenarios.push({
                // long single-thread sequences get the two-thread bound ladder (every extra step multiplies the
                // schedules with the three background threads)
                let nthreads = p.threads.len().max(if p.threads.iter().any(|t| t.len() >= 4) { 2 } else { 1 });
                program_scenario(p, oracle(), move |c| crate::harness::ilv::tier_cfg(c, nthreads))
            });
    }
    scenarios.push(seq_scenario(agree_spec, "seq/read-variants-agree"));
    PropertyDef {
        id: "C02",
        technique: "stateless preemption-bounded model checking of the real code with a per-read history oracle over effect intervals (register-with-delete), plus explicit-state BFS for read-variant agreement",
        rule: "ilv: every schedule of each reader/writer program up to the bound; distinct_nontrivial = distinct call/return histories in which calls of different threads (or a call and a background step) overlapped; seq: canonical states first reached at depth >= 2",
        assumptions: COMMON_ASSUMPTIONS.to_vec(),
        scenarios,
    }
}
