//! C17 - valid calls never panic or kill a background worker.
//!
//! seq over a *boundary alphabet* (weights 1, 24, 25, W, W+1, i64::MAX; TTL 0, 1 ns, 1 s, u64::MAX s,
//! Duration::MAX; counters 1..3; queue/pool/buffer size 1; W in {1, 30, i64::MAX}): a panic on the caller's
//! thread is caught per call, a panic on a background thread or a worker that stops answering fails the
//! execution (every step waits for quiescence, which is also the liveness probe).
use super::common::*;
use super::{Ctx, PropertyDef, Scenario, COMMON_ASSUMPTIONS};
use crate::harness::kit::*;
use crate::harness::ilv::{program_scenario, Oracle, Program, Run};
use crate::harness::seq::*;
use std::sync::Arc;

/// ilv: valid calls racing the sweeper / the worker / shutdown. Panics on a background thread and workers that
/// stop answering fail the execution and are reported by the engine; caller panics are caught per call. The
/// oracle itself only checks that the liveness probes of the epilogue were answered.
fn ilv_oracle() -> Oracle {
    Arc::new(|run: &Run, out: &mut Vec<crate::harness::ilv::Finding>| {
        if !run.program.has_shutdown() {
            if let Some(p) = run.calls.iter().find(|c| c.thread == PHASE_POST && matches!(c.op, Op::Put { .. })) {
                if run.status_of(PHASE_POST, p.idx).is_none() {
                    out.push(crate::harness::ilv::Finding::new("worker-liveness", "liveness:worker-did-not-answer-probe", format!("{} was never acknowledged", p.short())));
                }
            }
        }
    })
}

fn ilv_programs() -> Vec<Program> {
    let mut v = Vec::new();
    let mk = |name: &str, w: i64, init: Vec<Op>, threads: Vec<Vec<Op>>| {
        let mut p = Program::new(name);
        p.setup = Setup { weight: w, queue: 1, pool: 1, buffer: 1, counters: 2, ..Setup::default() };
        p.init = init;
        p.threads = threads;
        // probes: the worker answers a put, the sweeper finishes a sweep, the consumer applies a batch
        p.post = vec![put(4, 1), Op::TickWait, get(4), get(4)];
        p
    };
    let ups = |k: K, value: bool, w: Option<i64>, ttl: Option<u64>, rm: bool| Op::Upsert { k, value, w, ttl_ms: ttl, remove_ttl: rm };
    // an expired key leaves the expiry index (delete / TTL change / TTL removal) while the sweeper is at work
    v.push(mk("delete(a);delete(b) || {tick} (a, b expired)", 100, vec![put_ttl(1, 30, 1000), put_ttl(2, 30, 1000), adv(3000)], vec![vec![del(1), del(2)], vec![Op::Tick]]));
    v.push(mk("upsert(a,ttl 9s);upsert(b,remove ttl) || {tick} (a, b expired)", 200, vec![put_ttl(1, 30, 1000), put_ttl(2, 30, 1000), adv(3000)], vec![vec![ups(1, true, Some(30), Some(9000), false), ups(2, true, Some(30), None, true)], vec![Op::Tick]]));
    v.push(mk("put_ttl(c, ttl 0);get(c) || {tick} || delete(a)", 100, vec![put_ttl(1, 30, 1000), adv(3000)], vec![vec![put_ttl(3, 1, 0), get(3)], vec![Op::Tick], vec![del(1)]]));
    {
        let mut p = mk("shutdown || {tick} (a expired) || upsert(a, ttl 1ns)", 100, vec![put_ttl(1, 30, 1000), adv(3000)], vec![vec![Op::Shutdown], vec![Op::Tick], vec![ups(1, true, None, Some(TTL_ONE_NANO), false)]]);
        p.post = vec![get(1)];
        p.quiesce_sweeps = false;
        v.push(p);
    }
    // a TTL-only request on a key that is being evicted / swept at that moment: its weight entry goes first, its store
    // entry afterwards, so the caller can find the key stored but not charged
    for (name, init_a, req) in [
        ("evicting-put(c, w=W) || upsert(a, add ttl)", put(1, 2), ups(1, false, None, Some(5000), false)),
        ("evicting-put(c, w=W) || upsert(a, change ttl)", put_ttl(1, 2, 9000), ups(1, false, None, Some(5000), false)),
        ("evicting-put(c, w=W) || upsert(a, value)", put(1, 2), ups(1, true, None, None, false)),
    ] {
        let mut p = mk(name, 3, vec![init_a, put(2, 1)], vec![vec![put(3, 3)], vec![req]]);
        p.tolerate_value_missing = true;
        v.push(p);
    }
    {
        let mut p = mk("{tick} sweeping a || upsert(a, remove ttl) (a weighs 30)", 100, vec![put_ttl(1, 30, 1000), adv(3000)], vec![vec![Op::Tick], vec![ups(1, false, None, None, true)]]);
        p.tolerate_value_missing = true;
        v.push(p);
    }
    // two clients move the deadlines of two keys between the same two expiry shards in opposite directions; afterwards
    // the sweeper and the worker must still get at both shards (probes of the epilogue)
    v.push(mk("upsert(a, ttl: shard 1 -> 0) || upsert(b, ttl: shard 0 -> 1)", 200, vec![put_ttl(1, 30, 1000), put_ttl(2, 30, 2000)], vec![vec![ups(1, true, Some(30), Some(2000), false)], vec![ups(2, true, Some(30), Some(1000), false)]]));
    v.push(mk("upsert(a, ttl: shard 1 -> 0) || upsert(b, ttl: shard 0 -> 1) || {clock+3s;tick}", 200, vec![put_ttl(1, 30, 1000), put_ttl(2, 30, 2000)], vec![vec![ups(1, true, Some(30), Some(2000), false)], vec![ups(2, true, Some(30), Some(1000), false)], vec![adv(3000), Op::Tick]]));
    v.push(mk("evicting-put(c, w=W) || get(a);get(a) || {tick}", 3, vec![put_ttl(1, 2, 1000), put(2, 1), adv(3000)], vec![vec![put(3, 3)], vec![get(1), get(2)], vec![Op::Tick]]));
    v
}

fn oracle() -> SeqOracle {
    Arc::new(|run: &SeqRun, out: &mut Vec<Finding>| {
        // caller panics are reported by the engine (Res::Panicked); here: the cache keeps serving after every step
        let i = run.last();
        let c = &run.calls[i];
        if let (Op::Put { .. }, Some(st)) = (&c.op, run.statuses[i]) {
            if st == crate::cache::command::CommandStatus::Pending {
                out.push(Finding::new("ack-pending", "liveness:ack-pending-at-quiescence", format!("{} is still Pending at quiescence", c.op.short())));
            }
        }
    })
}

fn spec(ctx: &Ctx, w: i64, counters: u64) -> SeqSpec {
    let quick = ctx.quick();
    let mut alphabet: Vec<Op> = Vec::new();
    let mut weights: Vec<i64> = vec![1, 24, 25, w, w.saturating_add(1), i64::MAX];
    weights.sort();
    weights.dedup();
    let ttls: Vec<u64> = vec![0, TTL_ONE_NANO, 1000, TTL_U64_MAX_SECS, TTL_DURATION_MAX];
    for &wt in &weights {
        alphabet.push(Op::Put { k: 1, w: Some(wt), ttl_ms: None });
        alphabet.push(Op::Upsert { k: 1, value: true, w: Some(wt), ttl_ms: None, remove_ttl: false });
    }
    alphabet.push(Op::Put { k: 2, w: Some(1), ttl_ms: None });
    alphabet.push(Op::Put { k: 1, w: Some(1), ttl_ms: Some(1000) });
    alphabet.push(Op::Put { k: 1, w: Some(24), ttl_ms: Some(1000) });
    alphabet.push(Op::Put { k: 1, w: None, ttl_ms: None });
    for &t in &ttls {
        alphabet.push(Op::Put { k: 1, w: Some(25), ttl_ms: Some(t) });
        alphabet.push(Op::Put { k: 2, w: None, ttl_ms: Some(t) });
        alphabet.push(Op::Upsert { k: 1, value: true, w: None, ttl_ms: Some(t), remove_ttl: false });
    }
    alphabet.push(Op::Upsert { k: 1, value: true, w: None, ttl_ms: None, remove_ttl: true });
    // value-less requests are well formed when the key is stored
    alphabet.push(Op::Upsert { k: 1, value: false, w: None, ttl_ms: None, remove_ttl: true });
    alphabet.push(Op::Upsert { k: 1, value: false, w: None, ttl_ms: Some(1000), remove_ttl: false });
    alphabet.push(Op::Upsert { k: 1, value: false, w: Some(i64::MAX), ttl_ms: None, remove_ttl: false });
    alphabet.push(Op::Upsert { k: 1, value: true, w: None, ttl_ms: None, remove_ttl: false });
    alphabet.push(Op::Delete { k: 1 });
    alphabet.push(Op::Delete { k: 3 });
    alphabet.push(Op::Advance { ms: 2000 });
    alphabet.push(Op::TickWait);
    alphabet.push(Op::ReadAll { keys: vec![1, 2] });
    alphabet.push(Op::TotalWeight);
    SeqSpec {
        name: format!("seq/boundary-alphabet/W={}/counters={}", if w == i64::MAX { "i64::MAX".to_string() } else { w.to_string() }, counters),
        setup: Setup { weight: w, counters, queue: 1, pool: 1, buffer: 1, shards: 2, weight_fn: WeightFn::Const { c: 1, ttl_extra: 24 }, ..Setup::default() },
        world: Default::default(),
        prefix: vec![],
        alphabet,
        depth: if quick { 3 } else { 3 },
        allow: Some(Arc::new(|_h, present, a| match a {
            Op::Upsert { k, value: false, .. } => present.contains(k),
            _ => true,
        })),
        oracle: oracle(),
        keys: vec![1, 2],
        canon_sketch: true,
        ghost_key: None,
        max_states: 2_000_000,
        time_cap_s: if quick { 12.0 } else { 600.0 },
    }
}

/// Keys read more often than a 4-bit counter can count, on several counter positions: the access-count consumer
/// must survive saturation (a panic there is a background panic, and later batches are never applied).
fn hot_keys_spec(ctx: &Ctx, buffer: usize) -> SeqSpec {
    let mut prefix = vec![put(1, 1), put(2, 1), put(3, 1)];
    for _ in 0..18 {
        for k in 1..=3u64 {
            prefix.push(get(k));
        }
    }
    SeqSpec {
        name: format!("seq/saturating-the-sketch/buffer{}", buffer),
        setup: Setup { weight: 100, counters: 256, queue: 1, pool: 1, buffer, shards: 2, ..Setup::default() },
        world: Default::default(),
        prefix,
        alphabet: vec![get(1), get(2), get(3), put(4, 100), Op::TickWait],
        depth: if ctx.quick() { 4 } else { 6 },
        allow: None,
        oracle: oracle(),
        keys: vec![1, 2, 3],
        canon_sketch: true,
        ghost_key: None,
        max_states: 2_000_000,
        time_cap_s: if ctx.quick() { 10.0 } else { 300.0 },
    }
}

/// A configured clock that starts at the UNIX epoch itself (the library ships such a clock for its own tests): puts
/// with a TTL, sweeps in the first seconds after the epoch, reads.
fn epoch_spec(ctx: &Ctx) -> SeqSpec {
    SeqSpec {
        name: "seq/clock-at-the-unix-epoch".into(),
        setup: Setup { weight: 100, queue: 1, pool: 1, buffer: 1, shards: 2, t0_ms: 0, ..Setup::default() },
        world: Default::default(),
        prefix: vec![],
        alphabet: vec![put_ttl(1, 1, 1000), put_ttl(2, 1, 300), put(3, 1), Op::Advance { ms: 500 }, Op::Advance { ms: 1000 }, Op::TickWait, get(1), Op::Delete { k: 1 }],
        depth: if ctx.quick() { 4 } else { 6 },
        allow: None,
        oracle: oracle(),
        keys: vec![1, 2, 3],
        canon_sketch: false,
        ghost_key: None,
        max_states: 2_000_000,
        time_cap_s: if ctx.quick() { 10.0 } else { 300.0 },
    }
}

pub fn def(ctx: &Ctx) -> PropertyDef {
    let mut scenarios: Vec<Scenario> = Vec::new();
    let configs: Vec<(i64, u64)> = if ctx.quick() { vec![(1, 1), (30, 2), (i64::MAX, 3)] } else { vec![(1, 1), (1, 3), (30, 1), (30, 2), (30, 3), (i64::MAX, 1), (i64::MAX, 3)] };
    for (w, c) in configs {
        let name = spec(ctx, w, c).name;
        scenarios.push(seq_scenario(move |cx| spec(cx, w, c), &name));
    }
    scenarios.push(seq_scenario(epoch_spec, "seq/clock-at-the-unix-epoch"));
    for buffer in [1usize, 3] {
        let name = hot_keys_spec(ctx, buffer).name;
        scenarios.push(seq_scenario(move |cx| hot_keys_spec(cx, buffer), &name));
    }
    for p in ilv_programs() {
        let nthreads = p.threads.len();
        scenarios.push(program_scenario(p, ilv_oracle(), move |c| crate::harness::ilv::tier_cfg(c, nthreads)));
    }
    let mut assumptions = COMMON_ASSUMPTIONS.to_vec();
    assumptions.push("exhaustive over the listed boundary values and their orders, not over i64 / Duration; built with overflow checks on (as in the debug builds the repository's tests use) so that wrapping arithmetic surfaces as a panic");
    assumptions.push("all arguments satisfy the documented preconditions: weights > 0, well-formed upsert requests that carry a value");
    PropertyDef {
        id: "C17",
        technique: "explicit-state model checking of the real code over a boundary-value alphabet (BFS over operation sequences, every call wrapped in catch_unwind, background-thread panics and dead workers fail the execution) + stateless preemption-bounded model checking of valid calls racing the sweeper, the worker and shutdown",
        rule: "seq: all histories over the boundary alphabet up to the depth (distinct_nontrivial = canonical states first reached at depth >= 2); ilv: every schedule up to the bound",
        assumptions,
        scenarios,
    }
}
