//! C17 - valid calls never panic or kill a background worker.
//!
//! seq over a *boundary alphabet* (weights 1, 24, 25, W, W+1, i64::MAX; TTL 0, 1 ns, 1 s, u64::MAX s,
//! Duration::MAX; counters 1..3; queue/pool/buffer size 1; W in {1, 30, i64::MAX}): a panic on the caller's
//! thread is caught per call, a panic on a background thread or a worker that stops answering fails the
//! execution (every step waits for quiescence, which is also the liveness probe).
use super::common::*;
use super::{Ctx, PropertyDef, Scenario, COMMON_ASSUMPTIONS};
use crate::harness::kit::*;
use crate::harness::seq::*;
use std::sync::Arc;

fn oracle() -> SeqOracle {
    Arc::new(|run: &SeqRun, out: &mut Vec<Finding>| {
        // caller panics are reported by the engine (Res::Panicked); here: the cache keeps serving after every step
        let i = run.last();
        let c = &run.calls[i];
        if let (Op::Put { .. }, Some(st)) = (&c.op, run.statuses[i]) {
            if st == crate::cache::command::CommandStatus::Pending {
                out.push(Finding::new("ack-pending", "liveness:ack-pending-at-quiescence", format!("{} is still Pending at quiescence", c.op.short())));
            }
        }
    })
}

fn spec(ctx: &Ctx, w: i64, counters: u64) -> SeqSpec {
    let quick = ctx.quick();
    let mut alphabet: Vec<Op> = Vec::new();
    let mut weights: Vec<i64> = vec![1, 24, 25, w, w.saturating_add(1), i64::MAX];
    weights.sort();
    weights.dedup();
    let ttls: Vec<u64> = vec![0, TTL_ONE_NANO, 1000, TTL_U64_MAX_SECS, TTL_DURATION_MAX];
    for &wt in &weights {
        alphabet.push(Op::Put { k: 1, w: Some(wt), ttl_ms: None });
        alphabet.push(Op::Upsert { k: 1, value: true, w: Some(wt), ttl_ms: None, remove_ttl: false });
    }
    alphabet.push(Op::Put { k: 2, w: Some(1), ttl_ms: None });
    alphabet.push(Op::Put { k: 1, w: Some(1), ttl_ms: Some(1000) });
    alphabet.push(Op::Put { k: 1, w: Some(24), ttl_ms: Some(1000) });
    alphabet.push(Op::Put { k: 1, w: None, ttl_ms: None });
    for &t in &ttls {
        alphabet.push(Op::Put { k: 1, w: Some(25), ttl_ms: Some(t) });
        alphabet.push(Op::Put { k: 2, w: None, ttl_ms: Some(t) });
        alphabet.push(Op::Upsert { k: 1, value: true, w: None, ttl_ms: Some(t), remove_ttl: false });
    }
    alphabet.push(Op::Upsert { k: 1, value: true, w: None, ttl_ms: None, remove_ttl: true });
    // value-less requests are well formed when the key is stored
    alphabet.push(Op::Upsert { k: 1, value: false, w: None, ttl_ms: None, remove_ttl: true });
    alphabet.push(Op::Upsert { k: 1, value: false, w: None, ttl_ms: Some(1000), remove_ttl: false });
    alphabet.push(Op::Upsert { k: 1, value: false, w: Some(i64::MAX), ttl_ms: None, remove_ttl: false });
    alphabet.push(Op::Upsert { k: 1, value: true, w: None, ttl_ms: None, remove_ttl: false });
    alphabet.push(Op::Delete { k: 1 });
    alphabet.push(Op::Delete { k: 3 });
    alphabet.push(Op::Advance { ms: 2000 });
    alphabet.push(Op::TickWait);
    alphabet.push(Op::ReadAll { keys: vec![1, 2] });
    alphabet.push(Op::TotalWeight);
    SeqSpec {
        name: format!("seq/boundary-alphabet/W={}/counters={}", if w == i64::MAX { "i64::MAX".to_string() } else { w.to_string() }, counters),
        setup: Setup { weight: w, counters, queue: 1, pool: 1, buffer: 1, shards: 2, weight_fn: WeightFn::Const { c: 1, ttl_extra: 24 }, ..Setup::default() },
        world: Default::default(),
        prefix: vec![],
        alphabet,
        depth: if quick { 2 } else { 3 },
        allow: Some(Arc::new(|_h, present, a| match a {
            Op::Upsert { k, value: false, .. } => present.contains(k),
            _ => true,
        })),
        oracle: oracle(),
        keys: vec![1, 2],
        canon_sketch: true,
        ghost_key: None,
        max_states: 2_000_000,
        time_cap_s: if quick { 12.0 } else { 600.0 },
    }
}

pub fn def(ctx: &Ctx) -> PropertyDef {
    let mut scenarios: Vec<Scenario> = Vec::new();
    let configs: Vec<(i64, u64)> = if ctx.quick() { vec![(1, 1), (30, 2), (i64::MAX, 3)] } else { vec![(1, 1), (1, 3), (30, 1), (30, 2), (30, 3), (i64::MAX, 1), (i64::MAX, 3)] };
    for (w, c) in configs {
        let name = spec(ctx, w, c).name;
        scenarios.push(seq_scenario(move |cx| spec(cx, w, c), &name));
    }
    let mut assumptions = COMMON_ASSUMPTIONS.to_vec();
    assumptions.push("exhaustive over the listed boundary values and their orders, not over i64 / Duration; built with overflow checks on (as in the debug builds the repository's tests use) so that wrapping arithmetic surfaces as a panic");
    assumptions.push("all arguments satisfy the documented preconditions: weights > 0, well-formed upsert requests that carry a value");
    PropertyDef {
        id: "C17",
        technique: "explicit-state model checking of the real code over a boundary-value alphabet: BFS over operation sequences, every call wrapped in catch_unwind, background-thread panics and dead workers fail the execution; real code",
        rule: "seq: all histories over the boundary alphabet up to the depth; distinct_nontrivial = canonical states first reached at depth >= 2",
        assumptions,
        scenarios,
    }
}
