//! C05 - weight accounting matches the set of held keys at quiescence.
//!
//! Invariant Q (kit::accounting_violations) is evaluated at the quiescent end of every explored
//! execution of small client programs that race writes to one key, and again after a sequential probe.
use super::{Ctx, PropertyDef, Scenario, COMMON_ASSUMPTIONS};
use crate::harness::ilv::*;
use crate::harness::kit::*;
use std::sync::Arc;

/// Which kind of command created a key id: the value stored under the id identifies the call that wrote it.
pub fn id_origin(run: &Run, o: &Obs) -> Vec<(u64, String, usize)> {
    let mut out = Vec::new();
    for e in o.store.iter() {
        if let Some(c) = run.calls.iter().find(|c| c.value == Some(e.1)) {
            let kind = match &c.op {
                Op::Put { ttl_ms: Some(_), .. } | Op::Upsert { ttl_ms: Some(_), .. } => "PutWithTTL",
                _ => "Put",
            };
            out.push((e.2, kind.to_string(), c.thread));
        }
    }
    out
}

pub fn accounting_findings(run: &Run, o: &Obs, when: &str, out: &mut Vec<Finding>) {
    let origin = id_origin(run, o);
    let kind_of = |id: u64| origin.iter().find(|x| x.0 == id).map(|x| x.1.clone()).unwrap_or_else(|| "?".into());
    let sum: i64 = o.weights.iter().map(|w| w.3).sum();
    let mut structural = false;
    for (id, k, _h, w) in o.weights.iter() {
        match o.entry(*k) {
            Some(e) if e.2 == *id => {}
            Some(e) => {
                structural = true;
                let mut kinds = vec![kind_of(*id), kind_of(e.2)];
                kinds.sort();
                out.push(Finding::new(
                    "charged-id-not-held",
                    format!("acct:two-ids-one-key:{}", kinds.join("+")),
                    format!("{}: id #{} (key {}, weight {}) stays charged but the store holds key {} under id #{}; capacity is lost to an entry that can no longer be read or deleted", when, id, k, w, k, e.2),
                ));
            }
            None => {
                structural = true;
                out.push(Finding::new("charged-id-not-held", format!("acct:charged-but-absent:{}", kind_of(*id)), format!("{}: id #{} (key {}, weight {}) stays charged but the store does not hold key {}", when, id, k, w, k)));
            }
        }
    }
    let mut ids: Vec<u64> = o.store.iter().map(|e| e.2).collect();
    ids.sort();
    for w in ids.windows(2) {
        if w[0] == w[1] {
            structural = true;
            out.push(Finding::new("duplicate-key-id", "acct:two-keys-one-id", format!("{}: two stored keys share the key id #{}", when, w[0])));
        }
    }
    for (k, _v, id, _e, _d) in o.store.iter() {
        if !o.weights.iter().any(|w| w.0 == *id) {
            structural = true;
            out.push(Finding::new("held-key-uncharged", format!("acct:held-but-uncharged:{}", kind_of(*id)), format!("{}: the store holds key {} under id #{} but no weight is charged for it", when, k, id)));
        }
    }
    if sum != o.weight_used && !structural {
        out.push(Finding::new("sum-mismatch", "acct:sum-mismatch", format!("{}: weight_used={} but the charged weights sum to {}", when, o.weight_used, sum)));
    } else if sum != o.weight_used {
        out.push(Finding::new("sum-mismatch", "acct:sum-mismatch-with-structural", format!("{}: weight_used={} but the charged weights sum to {}", when, o.weight_used, sum)));
    }
}

pub fn oracle() -> Oracle {
    Arc::new(|run: &Run, out: &mut Vec<Finding>| {
        accounting_findings(run, &run.obs_end, "at quiescence after the window", out);
        if out.is_empty() {
            accounting_findings(run, &run.obs_post, "after the sequential probe", out);
        }
    })
}

fn put(k: K, w: i64) -> Op {
    Op::Put { k, w: Some(w), ttl_ms: None }
}
fn put_ttl(k: K, w: i64, ttl: u64) -> Op {
    Op::Put { k, w: Some(w), ttl_ms: Some(ttl) }
}
fn ups(k: K, w: Option<i64>, ttl: Option<u64>) -> Op {
    Op::Upsert { k, value: true, w, ttl_ms: ttl, remove_ttl: false }
}
fn get(k: K) -> Op {
    Op::Read { k, variant: ReadVariant::Get }
}

pub fn programs() -> Vec<Program> {
    let mut v = Vec::new();
    let base = |name: &str, w: i64| {
        let mut p = Program::new(name);
        p.setup = Setup { weight: w, ..Setup::default() };
        p.post = vec![Op::Delete { k: 1 }, get(1)];
        p
    };
    {
        let mut p = base("put(k)||put(k)", 10);
        p.threads = vec![vec![put(1, 2)], vec![put(1, 2)]];
        v.push(p);
    }
    {
        // different keys: the two commands must get different key ids
        let mut p = base("put(a)||put_ttl(b)", 10);
        p.threads = vec![vec![put(1, 2)], vec![put_ttl(2, 3, 5000)]];
        p.post = vec![Op::Advance { ms: 7000 }, Op::TickWait, get(1)];
        v.push(p);
    }
    {
        let mut p = base("put_ttl(k)||put_ttl(k)", 10);
        p.threads = vec![vec![put_ttl(1, 2, 5000)], vec![put_ttl(1, 3, 5000)]];
        v.push(p);
    }
    {
        let mut p = base("put(k);put_ttl(k)-one-thread", 10);
        p.threads = vec![vec![put(1, 2), put_ttl(1, 3, 5000)]];
        v.push(p);
    }
    {
        let mut p = base("put(k);put(k)-one-thread", 10);
        p.threads = vec![vec![put(1, 2), put(1, 2)]];
        v.push(p);
    }
    {
        let mut p = base("put(k)||upsert(k)", 10);
        p.threads = vec![vec![put(1, 2)], vec![ups(1, Some(3), None)]];
        v.push(p);
    }
    {
        let mut p = base("delete(k)||put(k)", 10);
        p.init = vec![put(1, 2)];
        p.threads = vec![vec![Op::Delete { k: 1 }], vec![put(1, 3)]];
        v.push(p);
    }
    {
        let mut p = base("delete(k);put(k)-one-thread", 10);
        p.init = vec![put(1, 2)];
        p.threads = vec![vec![Op::Delete { k: 1 }, put(1, 3)]];
        v.push(p);
    }
    {
        // k' heavy enough to need k's space; upsert changes k's weight meanwhile
        let mut p = base("evicting-put(k')||upsert(k,weight)", 4);
        p.init = vec![put(1, 2), put(2, 1)];
        p.threads = vec![vec![put(3, 3)], vec![ups(1, Some(1), None)]];
        p.world.iter_order_is_choice = true;
        v.push(p);
    }
    {
        let mut p = base("evicting-put(k')||delete(k)", 4);
        p.init = vec![put(1, 2), put(2, 1)];
        p.threads = vec![vec![put(3, 3)], vec![Op::Delete { k: 1 }]];
        p.world.iter_order_is_choice = true;
        v.push(p);
    }
    {
        let mut p = base("{clock;tick}||upsert(k,ttl)", 10);
        p.init = vec![put_ttl(1, 2, 5_000)];
        p.threads = vec![vec![Op::Advance { ms: 7_000 }, Op::Tick], vec![ups(1, Some(3), Some(50_000))]];
        v.push(p);
    }
    {
        let mut p = base("{clock;tick}||delete(k-with-ttl)", 10);
        p.init = vec![put_ttl(1, 2, 5_000)];
        p.threads = vec![vec![Op::Advance { ms: 7_000 }, Op::Tick], vec![Op::Delete { k: 1 }]];
        v.push(p);
    }
    {
        // the sweeper is releasing an expired key while a client deletes it and puts it again: whatever the order,
        // the weight released and the store entry removed must belong to the same incarnation
        let mut p = base("{tick} sweeping k||delete(k);put(k) (k expired, unswept)", 10);
        p.init = vec![put_ttl(1, 2, 1_000), Op::Advance { ms: 3_000 }];
        p.threads = vec![vec![Op::Tick], vec![Op::Delete { k: 1 }, Op::Await { call: 0 }, put(1, 3)]];
        v.push(p);
    }
    {
        // the key is being swept while its weight is updated
        let mut p = base("{clock;tick}||upsert(k,weight)", 10);
        p.init = vec![put_ttl(1, 4, 1_000), put(2, 1)];
        p.threads = vec![vec![Op::Advance { ms: 3_000 }, Op::Tick], vec![ups(1, Some(1), None)]];
        p.post = vec![get(2)];
        v.push(p);
    }
    {
        // the sweeper releases another key's weight while the worker updates this key's weight
        let mut p = base("{clock;tick} sweeping b||upsert(a,weight)", 10);
        p.init = vec![put(1, 2), put_ttl(2, 3, 1_000)];
        p.threads = vec![vec![Op::Advance { ms: 3_000 }, Op::Tick], vec![ups(1, Some(4), None)]];
        p.post = vec![get(1)];
        v.push(p);
    }
    {
        let mut p = base("upsert(k)||upsert(k)-weights", 10);
        p.init = vec![put(1, 2)];
        p.threads = vec![vec![ups(1, Some(3), None)], vec![ups(1, Some(5), None)]];
        v.push(p);
    }
    for (name, threads) in [
        ("put(k)||put(k)||delete(k)", vec![vec![put(1, 2)], vec![put(1, 3)], vec![Op::Delete { k: 1 }]]),
        ("put(k);delete(k)||put(k);upsert(k,w)", vec![vec![put(1, 2), Op::Delete { k: 1 }], vec![put(1, 3), ups(1, Some(4), None)]]),
        ("put_ttl(k)||upsert(k,ttl)||{clock;tick}", vec![vec![put_ttl(1, 2, 1000)], vec![ups(1, Some(3), Some(9000))], vec![Op::Advance { ms: 3000 }, Op::Tick]]),
    ] {
        let mut p = base(name, 10);
        p.threads = threads;
        p.thorough_only = true;
        v.push(p);
    }
    v
}

/// Sequential histories: Q in every quiescent state reachable over a write / clock / sweep alphabet (re-puts of
/// expired-but-unswept keys, deletes, weight and TTL upserts, evictions under W = 6).
fn seq_spec(ctx: &Ctx, shards: usize, colliding: bool) -> crate::harness::seq::SeqSpec {
    use crate::harness::seq::{Finding as SF, SeqRun, SeqSpec};
    use crate::props::common::{adv, del};
    let ups = |k: K, value: bool, w: Option<i64>, ttl: Option<u64>, rm: bool| Op::Upsert { k, value, w, ttl_ms: ttl, remove_ttl: rm };
    SeqSpec {
        name: format!("seq/accounting-at-every-quiescent-state/shards{}{}", shards, if colliding { "/all-keys-one-hash" } else { "" }),
        setup: Setup { weight: 6, shards, buffer: 64, hash_fn: if colliding { HashFn::Constant(7) } else { HashFn::Identity }, ..Setup::default() },
        world: Default::default(),
        prefix: vec![],
        alphabet: vec![
            put(1, 2),
            put_ttl(1, 3, 1000),
            put(2, 2),
            put_ttl(2, 1, 1500),
            put_ttl(2, 2, 0),
            put(3, 4),
            del(1),
            del(2),
            ups(1, true, Some(4), None, false),
            ups(1, true, Some(1), Some(2000), false),
            ups(2, true, Some(2), None, true),
            adv(2000),
            // an odd second: the shard of the 1 s / 1.5 s expiries comes up for sweeping (with adv(2000) alone those keys stay
            // expired-but-unswept for ever, which is wanted too)
            adv(1000),
            Op::TickWait,
            // reads are not supposed to change anything that is accounted
            crate::props::common::get(1),
        ],
        depth: if ctx.quick() { 7 } else { 9 },
        allow: None,
        oracle: Arc::new(|run: &SeqRun, out: &mut Vec<SF>| {
            for f in accounting_violations(run.after()) {
                let kind = if f.starts_with("weight_used") {
                    "sum-mismatch"
                } else if f.contains("is charged but the store holds") {
                    "two-ids-one-key"
                } else if f.contains("is charged but the store does not hold") {
                    "charged-but-absent"
                } else if f.contains("no weight is charged") {
                    "held-but-uncharged"
                } else {
                    "id-confusion"
                };
                out.push(SF::new("accounting-at-quiescence", format!("acct:seq:{}", kind), format!("after {}: {}", run.calls[run.last()].op.short(), f)));
            }
        }),
        keys: vec![1, 2, 3],
        canon_sketch: false,
        ghost_key: None,
        max_states: 2_000_000,
        time_cap_s: if ctx.quick() { 12.0 } else { 600.0 },
    }
}

pub fn def(ctx: &Ctx) -> PropertyDef {
    let quick = ctx.quick();
    let workers = ctx.workers;
    let mut scenarios: Vec<Scenario> = for_tier(programs(), quick)
        .into_iter()
        .map(|p| {
            {
                let nthreads = p.threads.len();
                program_scenario(p, oracle(), move |c| crate::harness::ilv::tier_cfg(c, nthreads))
            }
        })
        .collect();
    for (shards, colliding) in [(2usize, false), (4, false), (2, true)] {
        let name = seq_spec(ctx, shards, colliding).name;
        scenarios.push(crate::harness::seq::seq_scenario(move |c| seq_spec(c, shards, colliding), &name));
    }
    PropertyDef {
        id: "C05",
        technique: "explicit-state breadth-first search over operation sequences (invariant Q in every quiescent state), plus stateless model checking of the real code: preemption-bounded exhaustive DFS over the interleavings of 1-2 client threads with the command worker and the sweeper (shuttle runtime, own scheduler); invariant Q evaluated from state snapshots at quiescence",
        rule: "seq: all histories over the alphabet up to the depth, canonical-state deduplication; ilv: every schedule of each listed program up to the preemption bound; distinct_nontrivial = distinct call/return histories in which calls of different threads, or a call and a background step, overlapped",
        assumptions: COMMON_ASSUMPTIONS.to_vec(),
        scenarios,
    }
}
