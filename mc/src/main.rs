#![allow(dead_code, unused_imports, unexpected_cfgs, mismatched_lifetime_syntaxes, clippy::all)]
//! Model-checking harness for SarthakMakhija/cached. Mounts the repository's source tree as a
//! module of this crate (see build.rs) so that it is rebuilt from the current working tree and all
//! `pub(crate)` items are reachable.
include!(concat!(env!("OUT_DIR"), "/mount.rs"));
pub mod harness;
#[cfg(feature = "sched")]
pub mod props;
pub mod verif_rt;

#[cfg(feature = "sched")]
use props::{Ctx, Tier};

/// `loomck` backend: the acknowledgement micro-harness under loom's C11 memory model.
#[cfg(feature = "loomck")]
fn main() {
    let res = harness::loom_c12::run_all();
    let mut bad = 0;
    let mut total = 0;
    for (name, n, v) in &res {
        total += n;
        match v {
            None => println!("{} executions={} ok", name, n),
            Some(m) => {
                bad += 1;
                println!("{} executions={} VIOLATED: {}", name, n, m);
            }
        }
    }
    println!("loom: scenarios={} executions={} violations={}", res.len(), total, bad);
    std::process::exit(if bad == 0 { 0 } else { 1 });
}

/// `native` backend: replay conformance traces written by the `sched` backend on the real crates.
#[cfg(feature = "native")]
fn main() {
    use harness::seqcore::*;
    let args: Vec<String> = std::env::args().collect();
    if args.len() < 3 || args[1] != "conform" {
        eprintln!("usage: mc-native conform <trace.jsonl>...");
        std::process::exit(2);
    }
    let (mut n, mut bad, mut skipped) = (0u64, 0u64, 0u64);
    let part: Option<(u64, u64)> = std::env::var("MC_PART").ok().and_then(|s| s.split_once('/').map(|(a, b)| (a.parse().unwrap_or(0), b.parse().unwrap_or(1))));
    let mut lineno = 0u64;
    for path in &args[2..] {
        let text = match std::fs::read_to_string(path) {
            Ok(t) => t,
            Err(e) => {
                eprintln!("MACHINERY-ERROR cannot read {}: {}", path, e);
                std::process::exit(2);
            }
        };
        for line in text.lines() {
            lineno += 1;
            if let Some((i, k)) = part {
                if lineno % k != i {
                    continue;
                }
            }
            let v: serde_json::Value = match serde_json::from_str(line) {
                Ok(v) => v,
                Err(_) => continue,
            };
            if v["evicted"].as_bool().unwrap_or(false) {
                // victim choice among equals depends on the map's iteration order, which the shim enumerates
                // and the real map fixes by its hasher: such histories are compared on the sched side only
                skipped += 1;
                continue;
            }
            let setup = setup_from_json(&v["setup"]);
            let ops: Vec<crate::harness::kit::Op> = match v["ops"].as_array().map(|a| a.iter().map(op_from_json).collect::<Result<Vec<_>, _>>()) {
                Some(Ok(o)) => o,
                _ => continue,
            };
            let r = std::panic::catch_unwind(|| {
                let run = execute(setup, Default::default(), &ops);
                let t = trace_line(&run);
                (run.history(), t["canon"].as_str().unwrap_or("").to_string(), t["sketch"].as_str().unwrap_or("").to_string(), t["dropped"].as_u64().unwrap_or(0))
            });
            n += 1;
            match r {
                Ok((hist, cn, sketch, dropped)) => {
                    let want_hist: Vec<String> = v["observed"].as_array().map(|a| a.iter().filter_map(|x| x.as_str().map(|s| s.to_string())).collect()).unwrap_or_default();
                    let want_canon = v["canon"].as_str().unwrap_or("");
                    // the sketch is comparable only when neither run dropped a buffer (otherwise it depends on timing)
                    let sketch_ok = dropped != 0 || v["dropped"].as_u64().unwrap_or(0) != 0 || sketch == v["sketch"].as_str().unwrap_or("");
                    let cn = if sketch_ok { cn } else { format!("{}{}", cn, sketch) };
                    if hist != want_hist || cn != want_canon {
                        bad += 1;
                        if bad <= 5 {
                            eprintln!("CONFORMANCE-MISMATCH {}:{}\n  ops: {:?}\n  sched:  {:?} | {}\n  native: {:?} | {}", path, lineno, ops.iter().map(|o| o.short()).collect::<Vec<_>>(), want_hist, want_canon, hist, cn);
                        }
                    }
                }
                Err(e) => {
                    bad += 1;
                    let m = e.downcast_ref::<String>().cloned().or_else(|| e.downcast_ref::<&str>().map(|s| s.to_string())).unwrap_or_default();
                    eprintln!("CONFORMANCE-MISMATCH {}:{} native run failed: {} (ops {:?})", path, lineno, m, ops.iter().map(|o| o.short()).collect::<Vec<_>>());
                    crate::verif_rt::world::abandon();
                }
            }
        }
    }
    println!("conformance: replayed={} mismatches={} skipped_evicting={}", n, bad, skipped);
    std::process::exit(if bad == 0 { 0 } else { 2 });
}

#[cfg(feature = "sched")]
fn usage() -> ! {
    eprintln!("usage: mc run <ID> [--tier quick|thorough] [--seed N] [--evidence DIR] [--known FILE] [--workers N] [--only SUBSTR]\n       mc replay <file>\n       mc list");
    std::process::exit(2)
}

#[cfg(feature = "sched")]
fn main() {
    let args: Vec<String> = std::env::args().collect();
    if args.len() < 2 {
        usage();
    }
    let mut tier = match std::env::var("VERIF_TIER").ok().as_deref() {
        Some("thorough") => Tier::Thorough,
        _ => Tier::Quick,
    };
    let mut seed: u64 = std::env::var("VERIF_SEED").ok().and_then(|s| s.parse().ok()).unwrap_or(0);
    let mut evidence = "/verif/evidence".to_string();
    let mut known = "/verif/known_findings.jsonl".to_string();
    let mut workers: usize = std::thread::available_parallelism().map(|n| n.get()).unwrap_or(4).min(16);
    let mut only: Option<String> = None;
    let mut i = 3;
    while i < args.len() {
        match args[i].as_str() {
            "--tier" => {
                tier = if args.get(i + 1).map(|s| s.as_str()) == Some("thorough") { Tier::Thorough } else { Tier::Quick };
                i += 1;
            }
            "--seed" => {
                seed = args.get(i + 1).and_then(|s| s.parse().ok()).unwrap_or(0);
                i += 1;
            }
            "--evidence" => {
                evidence = args.get(i + 1).cloned().unwrap_or(evidence);
                i += 1;
            }
            "--known" => {
                known = args.get(i + 1).cloned().unwrap_or(known);
                i += 1;
            }
            "--workers" => {
                workers = args.get(i + 1).and_then(|s| s.parse().ok()).unwrap_or(workers);
                i += 1;
            }
            "--only" => {
                only = args.get(i + 1).cloned();
                i += 1;
            }
            _ => usage(),
        }
        i += 1;
    }
    let ctx = Ctx { tier, seed, workers, budget_s: if tier == Tier::Quick { 45.0 } else { 1800.0 }, scenario_cap_s: 10.0 };
    match args[1].as_str() {
        #[cfg(feature = "sched")]
        "selftest" => {
            let bad = harness::selftest::run();
            for b in &bad {
                eprintln!("MACHINERY-ERROR explorer self-test failed: {}", b);
            }
            println!("selftest: {}", if bad.is_empty() { "ok" } else { "FAILED" });
            std::process::exit(if bad.is_empty() { 0 } else { 2 });
        }
        "list" => {
            for id in props::ALL {
                if let Some(d) = props::property(id, &ctx) {
                    println!("{}: {} scenarios", id, d.scenarios.len());
                    for s in d.scenarios {
                        println!("    {}", s.name);
                    }
                }
            }
        }
        "run" => {
            let id = args.get(2).cloned().unwrap_or_else(|| usage());
            let mut def = match props::property(&id, &ctx) {
                Some(d) => d,
                None => {
                    eprintln!("MACHINERY-ERROR unknown or unbuilt property {}", id);
                    std::process::exit(2);
                }
            };
            if let Some(o) = &only {
                def.scenarios.retain(|s| s.name.contains(o.as_str()));
            }
            eprintln!("{} tier={:?} seed={} workers={} source={}", id, tier, seed, workers, env!("CACHED_SRC_RESOLVED"));
            #[cfg(feature = "sched")]
            {
                let bad = harness::selftest::run();
                if !bad.is_empty() {
                    for b in bad {
                        eprintln!("MACHINERY-ERROR explorer self-test failed: {}", b);
                    }
                    std::process::exit(2);
                }
            }
            let run = props::run_property(def, &ctx);
            let kf = harness::report::load_known(&known);
            let code = run.finish(&evidence, &kf);
            std::process::exit(code);
        }
        "replay" => {
            let path = args.get(2).cloned().unwrap_or_else(|| usage());
            let doc: serde_json::Value = match std::fs::read_to_string(&path).ok().and_then(|s| serde_json::from_str(&s).ok()) {
                Some(d) => d,
                None => {
                    eprintln!("MACHINERY-ERROR cannot read replay file {}", path);
                    std::process::exit(2);
                }
            };
            let id = doc["property"].as_str().unwrap_or("").to_string();
            let scen = doc["scenario"].as_str().unwrap_or("").to_string();
            let mut found = None;
            for t in [Tier::Quick, Tier::Thorough] {
                let c = Ctx { tier: t, ..ctx.clone() };
                if let Some(d) = props::property(&id, &c) {
                    if let Some(s) = d.scenarios.into_iter().find(|s| s.name == scen) {
                        found = Some(s);
                        break;
                    }
                }
            }
            let s = match found {
                Some(s) => s,
                None => {
                    eprintln!("MACHINERY-ERROR scenario {} of {} not found", scen, id);
                    std::process::exit(2);
                }
            };
            match (s.replay)(&doc) {
                Err(e) => {
                    eprintln!("MACHINERY-ERROR {}", e);
                    std::process::exit(2);
                }
                Ok(found) => {
                    let want = doc["signature"].as_str().unwrap_or("");
                    for (clause, sig, detail) in &found {
                        println!("reproduced: {} :: {} :: {}", clause, sig, detail);
                    }
                    if found.iter().any(|f| f.1 == want) {
                        println!("VIOLATION property={} replay={}", id, path);
                        std::process::exit(1);
                    } else {
                        println!("replay of {} did not reproduce {} (the property holds on this schedule now)", path, want);
                        std::process::exit(0);
                    }
                }
            }
        }
        _ => usage(),
    }
}
